// HUNT C09 exploration harness (these tests PASS: they found no new violation).
// Belongs in zk_stdlib/tests/c09_probe2.rs, together with zk_stdlib/tests/c09_common/mod.rs.
// Run: CARGO_TARGET_DIR=/tmp/hunt-C09/target cargo test --offline --release -j 4 -p midnight-zk-stdlib --test c09_probe2

//! Exploration harness, batch 2 (not a final deliverable).

mod c09_common;

use c09_common::{compare, F};
use ff::Field;
use midnight_circuits::{
    field::foreign::params::MultiEmulationParams,
    hash::poseidon::PoseidonChip,
    instructions::{base64::Base64VarInstructions, map::{MapCPU, MapInstructions}, *},
    map::cpu::MapMt,
    types::{AssignedByte, AssignedForeignPoint, AssignedNative, AssignedVector},
    CircuitField,
};
use midnight_curves::k256::{Fq as K256Scalar, K256};
use midnight_proofs::{
    circuit::{Layouter, Value},
    plonk::Error,
};
use midnight_zk_stdlib::{Relation, ZkStdLib, ZkStdLibArch};

#[derive(Clone, Copy, Debug)]
enum Op {
    Vector,
    Base64,
    Base64Var,
    Fetch,
    Map,
    KOutOfN,
}

#[derive(Clone)]
struct Probe {
    op: Op,
}

/// Witness: a byte vector plus some scalars.
type W = (Vec<u8>, Vec<F>);

fn secp_point(f: &F) -> K256 {
    K256::generator() * K256Scalar::from_biguint(&f.to_biguint()).unwrap()
}

impl Relation for Probe {
    type Instance = ();
    type Witness = W;

    fn format_instance(_: &Self::Instance) -> Result<Vec<F>, Error> {
        Ok(vec![])
    }

    fn circuit(
        &self,
        std: &ZkStdLib,
        layouter: &mut impl Layouter<F>,
        _instance: Value<Self::Instance>,
        witness: Value<Self::Witness>,
    ) -> Result<(), Error> {
        let (bytes, scalars) = witness.unzip();
        match self.op {
            Op::Vector => {
                let v: AssignedVector<F, AssignedByte<F>, 16, 4> =
                    std.assign_with_filler(layouter, bytes.clone(), None)?;
                let u: AssignedVector<F, AssignedByte<F>, 16, 4> =
                    std.assign_with_filler(layouter, bytes, Some(7u8))?;
                let _ = std.padding_flag(layouter, &v)?;
                let _ = std.get_limits(layouter, &v)?;
                let _ = std.trim_beginning(layouter, &v, 0)?;
                let _ = std.trim_beginning(layouter, &u, 0)?;
                let _: AssignedVector<F, AssignedByte<F>, 32, 4> = std.resize(layouter, u)?;
            }
            Op::Base64 => {
                let bs: Vec<AssignedByte<F>> =
                    std.assign_many(layouter, &bytes.transpose_vec(16))?;
                let _ = std.base64().decode_base64(layouter, &bs, true)?;
                let _ = std.base64().decode_base64url(layouter, &bs, true)?;
                let _ = std.base64().decode_base64(layouter, &bs[..14], false)?;
            }
            Op::Base64Var => {
                let v = Base64VarInstructions::<F, 16, 4>::assign_var_base64(
                    std.base64(),
                    layouter,
                    bytes,
                )?;
                let _: AssignedVector<F, AssignedByte<F>, 12, 3> =
                    std.base64().var_decode_base64(layouter, &v)?;
                let _: AssignedVector<F, AssignedByte<F>, 12, 3> =
                    std.base64().var_decode_base64url(layouter, &v)?;
            }
            Op::Fetch => {
                let bs: Vec<AssignedByte<F>> =
                    std.assign_many(layouter, &bytes.transpose_vec(80))?;
                let idx: AssignedNative<F> =
                    std.assign(layouter, scalars.map(|s| s[0]))?;
                let _ = std.parser().fetch_bytes(layouter, &bs, &idx, 5)?;
                let _ = std.parser().fetch_bytes(layouter, &bs, &idx, 40)?;
            }
            Op::Map => {
                let mut mg = std.map_gadget().clone();
                let map_val = scalars.clone().map(|s| {
                    let mut m = MapMt::<F, PoseidonChip<F>>::new(&F::ZERO);
                    m.insert(&s[0], &s[1]);
                    m.insert(&s[1], &s[2]);
                    m
                });
                mg.init(layouter, map_val)?;
                let k: AssignedNative<F> = std.assign(layouter, scalars.clone().map(|s| s[0]))?;
                let k2: AssignedNative<F> = std.assign(layouter, scalars.clone().map(|s| s[2]))?;
                let v: AssignedNative<F> = std.assign(layouter, scalars.map(|s| s[1]))?;
                let _ = mg.get(layouter, &k)?;
                let _ = mg.get(layouter, &k2)?;
                mg.insert(layouter, &k2, &v)?;
                mg.insert(layouter, &k, &v)?;
                let _ = mg.get(layouter, &k2)?;
            }
            Op::KOutOfN => {
                let c = std.secp256k1_curve();
                let table: Vec<AssignedForeignPoint<F, K256, MultiEmulationParams>> = (1..=4u64)
                    .map(|i| c.assign(layouter, Value::known(secp_point(&F::from(i)))))
                    .collect::<Result<_, _>>()?;
                // selected points: G * s[0], G * s[1] with s in 1..=4, s[0] < s[1]
                let sel = vec![
                    scalars.clone().map(|s| secp_point(&s[0])),
                    scalars.map(|s| secp_point(&s[1])),
                ];
                let _ = c.k_out_of_n_points(layouter, &table, &sel)?;
            }
        }
        Ok(())
    }

    fn used_chips(&self) -> ZkStdLibArch {
        ZkStdLibArch {
            jubjub: true,
            poseidon: true,
            secp256k1: true,
            base64: true,
            nr_pow2range_cols: 4,
            ..ZkStdLibArch::default()
        }
    }

    fn write_relation<W: std::io::Write>(&self, _writer: &mut W) -> std::io::Result<()> {
        Ok(())
    }

    fn read_relation<R: std::io::Read>(_reader: &mut R) -> std::io::Result<Self> {
        unimplemented!()
    }
}

fn run(op: Op, cases: Vec<(String, (), W)>) {
    let rel = Probe { op };
    let res = compare(&rel, cases);
    for (label, d) in &res {
        println!("[{op:?}] {label}:");
        for l in d {
            println!("    {l}");
        }
    }
    assert!(res.is_empty(), "{op:?}: structural differences found");
}

#[test]
fn probe_vector() {
    let cases = (0..=16usize)
        .map(|l| (format!("len{l}"), (), ((0..l as u8).collect::<Vec<u8>>(), vec![])))
        .collect();
    run(Op::Vector, cases);
}

#[test]
fn probe_base64() {
    let strs: Vec<&[u8; 16]> = vec![
        b"QUJDREVGR0hJSktM",
        b"QUJDREVGR0hJSks=",
        b"QUJDREVGR0hJSg==",
        b"AAAAAAAAAAAAAAAA",
        b"////++++////++++",
    ];
    let cases = strs
        .into_iter()
        .enumerate()
        .map(|(i, s)| (format!("s{i}"), (), (s.to_vec(), vec![])))
        .collect();
    run(Op::Base64, cases);
}

#[test]
fn probe_base64_var() {
    let strs: Vec<&[u8]> = vec![
        b"QUJDREVGR0hJSktM",
        b"QUJDREVGR0hJSks=",
        b"QUJDREVGR0g=",
        b"QUJDREVG",
        b"QUI=",
        b"QQ==",
        b"",
    ];
    let cases = strs
        .into_iter()
        .enumerate()
        .map(|(i, s)| (format!("s{i}"), (), (s.to_vec(), vec![])))
        .collect();
    run(Op::Base64Var, cases);
}

#[test]
fn probe_fetch() {
    let cases = [0u64, 1, 30, 31, 32, 39, 40]
        .into_iter()
        .map(|i| {
            (
                format!("idx{i}"),
                (),
                ((0..80u8).collect::<Vec<u8>>(), vec![F::from(i)]),
            )
        })
        .collect();
    run(Op::Fetch, cases);
}

#[test]
fn probe_map() {
    let vals = [F::ZERO, F::ONE, -F::ONE, F::from(12345)];
    let mut cases = vec![];
    for (i, a) in vals.iter().enumerate() {
        for (j, b) in vals.iter().enumerate() {
            cases.push((format!("m{i}{j}"), (), (vec![], vec![*a, *b, *a + *b])));
        }
    }
    run(Op::Map, cases);
}

#[test]
fn probe_k_out_of_n() {
    let mut cases = vec![];
    for i in 1..=4u64 {
        for j in (i + 1)..=4 {
            cases.push((format!("k{i}{j}"), (), (vec![], vec![F::from(i), F::from(j)])));
        }
    }
    run(Op::KOutOfN, cases);
}
