import re,sys,os
pat=re.compile(r'\.(map|and_then|map_with_result)\(\s*(move\s*)?\|[^|]*\|')
kw=re.compile(r'(region\b|layouter\b|\.enable\(|assign_advice|assign_fixed|constrain_equal|copy_advice|assign_region|borrow_mut|\.push\(|\.insert\()')
def scan(path):
    s=open(path,errors='ignore').read()
    for m in pat.finditer(s):
        i=m.end()
        # find closure body extent: either { ... } or until matching paren
        depth=1; j=i
        while j<len(s) and depth>0:
            c=s[j]
            if c in '({[': depth+=1
            elif c in ')}]': depth-=1
            j+=1
        body=s[i:j]
        if kw.search(body):
            # check receiver looks like a Value: heuristics - preceding text contains value() or _val or Value
            pre=s[max(0,m.start()-200):m.start()]
            line=s.count('\n',0,m.start())+1
            if re.search(r'(value\(\)|_val\b|_value\b|Value::|zip\(|unzip|copied\(\)|cloned\(\))\s*$', pre.rstrip()[-60:]) or 'value()' in pre[-80:]:
                print(f"{path}:{line}: {body[:100]!r}")
for root in sys.argv[1:]:
    for d,_,fs in os.walk(root):
        for f in fs:
            if f.endswith('.rs'): scan(os.path.join(d,f))
