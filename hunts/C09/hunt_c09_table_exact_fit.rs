// HUNT C09 (adjacent finding) -- belongs in `proofs/tests/hunt_c09_table_exact_fit.rs`.
//
// Run with:
//   CARGO_TARGET_DIR=/tmp/hunt-C09/target cargo test --offline --release -j 4 \
//       -p midnight-proofs --test hunt_c09_table_exact_fit
//
// `keygen_vk` derives the circuit size `k` from the cost model
// (`k_from_circuit`), and then synthesises the circuit with that `k`. The two
// implementations disagree on the row usage of lookup tables: the cost model
// says that a table of `2^k - (blinding_factors + 1)` rows fits in `2^k` rows,
// but keygen (`Assembly::fill_from_row`) refuses it, because it requires the
// first row *after* the table to be usable as well.
//
// Consequently `keygen_vk` fails (NotEnoughRowsAvailable) with the very `k` it
// computed itself, for a perfectly valid circuit, whereas the same circuit
// with one table row less (or with `k + 1`) is accepted.

use ff::Field;
use midnight_curves::{Bls12, Fq};
use midnight_proofs::{
    circuit::{Layouter, SimpleFloorPlanner, Value},
    plonk::{
        k_from_circuit, keygen_vk, keygen_vk_with_k, Advice, Circuit, Column, ConstraintSystem,
        Error, Expression, Selector, TableColumn,
    },
    poly::{
        kzg::{params::ParamsKZG, KZGCommitmentScheme},
        Rotation,
    },
};
use rand_core::OsRng;

#[derive(Clone, Debug)]
struct Config {
    a: Column<Advice>,
    sel: Selector,
    table: TableColumn,
}

#[derive(Clone, Default)]
struct TableCircuit {
    table_rows: usize,
}

impl Circuit<Fq> for TableCircuit {
    type Config = Config;
    type FloorPlanner = SimpleFloorPlanner;
    #[cfg(feature = "circuit-params")]
    type Params = ();

    fn without_witnesses(&self) -> Self {
        self.clone()
    }

    fn configure(meta: &mut ConstraintSystem<Fq>) -> Config {
        let a = meta.advice_column();
        let sel = meta.complex_selector();
        let table = meta.lookup_table_column();
        meta.lookup("lookup", |meta| {
            let s = meta.query_selector(sel);
            let a = meta.query_advice(a, Rotation::cur());
            vec![(s * a, table)]
        });
        let _ = Expression::<Fq>::from(1);
        Config { a, sel, table }
    }

    fn synthesize(&self, config: Config, mut layouter: impl Layouter<Fq>) -> Result<(), Error> {
        layouter.assign_table(
            || "table",
            |mut table| {
                for row in 0..self.table_rows {
                    table.assign_cell(
                        || "t",
                        config.table,
                        row,
                        || Value::known(Fq::from(row as u64)),
                    )?;
                }
                Ok(())
            },
        )?;
        layouter.assign_region(
            || "one lookup",
            |mut region| {
                config.sel.enable(&mut region, 0)?;
                region.assign_advice(|| "a", config.a, 0, || Value::known(Fq::ONE))?;
                Ok(())
            },
        )
    }
}

fn nb_unusable_rows() -> usize {
    let mut cs = ConstraintSystem::<Fq>::default();
    let _ = TableCircuit::configure(&mut cs);
    cs.blinding_factors() + 1
}

#[test]
fn keygen_accepts_the_k_computed_by_the_cost_model() {
    let k = 6u32;
    let u = nb_unusable_rows();

    // A table that fills exactly all the usable rows of a 2^k domain.
    let circuit = TableCircuit {
        table_rows: (1 << k) - u,
    };

    // The cost model says that 2^k rows are enough...
    assert_eq!(k_from_circuit(&circuit), k);

    // ...so keygen, which uses that very `k`, must succeed.
    let params = ParamsKZG::<Bls12>::unsafe_setup(k, OsRng);
    let res = keygen_vk::<Fq, KZGCommitmentScheme<Bls12>, _>(&params, &circuit);
    assert!(
        res.is_ok(),
        "keygen_vk failed with the k = {k} computed by its own cost model: {:?}",
        res.err()
    );
}

#[test]
fn control_one_row_less_is_fine() {
    let k = 6u32;
    let u = nb_unusable_rows();
    let circuit = TableCircuit {
        table_rows: (1 << k) - u - 1,
    };
    assert_eq!(k_from_circuit(&circuit), k);
    let params = ParamsKZG::<Bls12>::unsafe_setup(k, OsRng);
    keygen_vk_with_k::<Fq, KZGCommitmentScheme<Bls12>, _>(&params, &circuit, k)
        .expect("a table with one row less fits");
}
