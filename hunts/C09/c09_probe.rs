// HUNT C09 exploration harness (these tests PASS: they found no new violation).
// Belongs in zk_stdlib/tests/c09_probe.rs, together with zk_stdlib/tests/c09_common/mod.rs.
// Run: CARGO_TARGET_DIR=/tmp/hunt-C09/target cargo test --offline --release -j 4 -p midnight-zk-stdlib --test c09_probe

//! Exploration harness (not a final deliverable).

mod c09_common;

use c09_common::{compare, F};
use ff::Field;
use midnight_circuits::CircuitField;
use group::Group;
use midnight_circuits::{
    instructions::*,
    types::{AssignedBit, AssignedByte, AssignedNative, AssignedNativePoint},
};
use midnight_circuits::field::foreign::params::MultiEmulationParams;
use midnight_circuits::types::{AssignedField, AssignedForeignPoint};
use midnight_curves::{
    k256::{Fq as K256Scalar, K256},
    Fr as JubjubScalar, JubjubExtended as Jubjub, JubjubSubgroup,
};
use midnight_proofs::{
    circuit::{Layouter, Value},
    plonk::Error,
};
use midnight_zk_stdlib::{Relation, ZkStdLib, ZkStdLibArch};
use num_bigint::BigUint;

#[derive(Clone, Copy, Debug)]
enum Op {
    NativeMisc,
    NativeCmp,
    JubjubOps,
    SecpAdd,
    SecpMsm,
    SecpScalar,
    BigUint,
    Poseidon,
    HashToCurve,
    Sha256,
    Sha512,
    Keccak,
    Sha3,
    Blake2b,
    Bls,
}

#[derive(Clone)]
struct Probe {
    op: Op,
    n: usize, // nb of witness scalars
}

fn secp_scalar(f: &F) -> K256Scalar {
    K256Scalar::from_biguint(&(f.to_biguint() % K256Scalar::modulus())).unwrap()
}

fn secp_point(f: &F) -> K256 {
    // 0 -> identity, otherwise G * f.
    K256::generator() * secp_scalar(f)
}

fn jub_scalar(f: &F) -> JubjubScalar {
    JubjubScalar::from_biguint(&(f.to_biguint() % JubjubScalar::modulus())).unwrap()
}

impl Relation for Probe {
    type Instance = ();
    type Witness = Vec<F>;

    fn format_instance(_: &Self::Instance) -> Result<Vec<F>, Error> {
        Ok(vec![])
    }

    fn circuit(
        &self,
        std: &ZkStdLib,
        layouter: &mut impl Layouter<F>,
        _instance: Value<Self::Instance>,
        witness: Value<Self::Witness>,
    ) -> Result<(), Error> {
        let w = witness.transpose_vec(self.n);
        match self.op {
            Op::NativeMisc => {
                let xs: Vec<AssignedNative<F>> = std.assign_many(layouter, &w)?;
                let x = &xs[0];
                let y = &xs[1];
                let _ = std.is_equal(layouter, x, y)?;
                let _ = std.is_not_equal(layouter, x, y)?;
                let _ = std.is_equal_to_fixed(layouter, x, F::ZERO)?;
                let _ = std.inv0(layouter, x)?;
                let _ = std.mul(layouter, x, y, None)?;
                let _ = std.add(layouter, x, y)?;
                let _ = std.assigned_to_le_bits(layouter, x, None, true)?;
                let _ = std.assigned_to_le_bytes(layouter, y, None)?;
                let _ = std.sgn0(layouter, x)?;
                let b: AssignedBit<F> = std.is_equal(layouter, x, y)?;
                let _ = std.select(layouter, &b, x, y)?;
                let _ = std.cond_swap(layouter, &b, x, y)?;
                let _ = std.pow(layouter, x, 5)?;
            }
            Op::NativeCmp => {
                // witnesses are expected to be < 2^64
                let xs: Vec<AssignedNative<F>> = std.assign_many(layouter, &w)?;
                let x = &xs[0];
                let y = &xs[1];
                let _ = std.lower_than(layouter, x, y, 64)?;
                std.assert_lower_than_fixed(layouter, x, &(BigUint::from(1u8) << 64))?;
                std.assert_lower_than_fixed(
                    layouter,
                    y,
                    &((BigUint::from(1u8) << 64) + BigUint::from(12345u32)),
                )?;
                let _ = std.assign_lower_than_fixed(
                    layouter,
                    w[0],
                    &((BigUint::from(3u8) << 64) + BigUint::from(7u32)),
                )?;
                let bits = std.assigned_to_le_bits(layouter, x, Some(64), true)?;
                let _ = std.le_bits_lower_than(layouter, &bits, BigUint::from(1000u32))?;
                let _ = std.le_bits_geq_than(layouter, &bits, BigUint::from(1000u32))?;
            }
            Op::JubjubOps => {
                let jj = std.jubjub();
                let s0 = jj.assign(layouter, w[0].map(|f| jub_scalar(&f)))?;
                let s1 = jj.assign(layouter, w[1].map(|f| jub_scalar(&f)))?;
                let p: AssignedNativePoint<Jubjub> = jj.assign(
                    layouter,
                    w[2].map(|f| JubjubSubgroup::generator() * jub_scalar(&f)),
                )?;
                let q: AssignedNativePoint<Jubjub> = jj.assign(
                    layouter,
                    w[3].map(|f| JubjubSubgroup::generator() * jub_scalar(&f)),
                )?;
                let _ = jj.add(layouter, &p, &q)?;
                let _ = jj.double(layouter, &p)?;
                let _ = jj.negate(layouter, &p)?;
                let _ = jj.msm(layouter, &[s0, s1], &[p.clone(), q.clone()])?;
                let _ = jj.is_equal(layouter, &p, &q)?;
                let _ = jj.mul_by_constant(layouter, JubjubScalar::from(77u64), &p)?;
                let x = jj.x_coordinate(&p);
                let y = jj.y_coordinate(&p);
                let _ = jj.point_from_coordinates(layouter, &x, &y)?;
            }
            Op::SecpAdd => {
                let c = std.secp256k1_curve();
                let p: AssignedForeignPoint<F, K256, MultiEmulationParams> = c.assign(layouter, w[0].map(|f| secp_point(&f)))?;
                let q: AssignedForeignPoint<F, K256, MultiEmulationParams> = c.assign(layouter, w[1].map(|f| secp_point(&f)))?;
                let r = c.add(layouter, &p, &q)?;
                let _ = c.double(layouter, &p)?;
                let _ = c.negate(layouter, &q)?;
                let _ = c.is_equal(layouter, &p, &q)?;
                let _ = c.is_zero(layouter, &r)?;
                let b: AssignedBit<F> = c.is_equal(layouter, &p, &q)?;
                let _ = c.select(layouter, &b, &p, &q)?;
                let _ = c.mul_by_constant(layouter, K256Scalar::from(5u64), &p)?;
                let _ = c.mul_by_constant(layouter, -K256Scalar::from(5u64), &p)?;
            }
            Op::SecpMsm => {
                let c = std.secp256k1_curve();
                let sc = std.secp256k1_scalar();
                let p: AssignedForeignPoint<F, K256, MultiEmulationParams> = c.assign(layouter, w[0].map(|f| secp_point(&f)))?;
                let q: AssignedForeignPoint<F, K256, MultiEmulationParams> = c.assign(layouter, w[1].map(|f| secp_point(&f)))?;
                let s: AssignedField<F, K256Scalar, MultiEmulationParams> = sc.assign(layouter, w[2].map(|f| secp_scalar(&f)))?;
                let t: AssignedField<F, K256Scalar, MultiEmulationParams> = sc.assign(layouter, w[3].map(|f| secp_scalar(&f)))?;
                let _ = c.msm(layouter, &[s.clone(), t.clone()], &[p.clone(), q.clone()])?;
                let _ = c.msm_by_bounded_scalars(layouter, &[(s, 128), (t, 64)], &[p, q])?;
            }
            Op::SecpScalar => {
                let sc = std.secp256k1_scalar();
                let s = sc.assign(layouter, w[0].map(|f| secp_scalar(&f)))?;
                let t = sc.assign(layouter, w[1].map(|f| secp_scalar(&f)))?;
                let _ = sc.add(layouter, &s, &t)?;
                let _ = sc.sub(layouter, &s, &t)?;
                let m = sc.mul(layouter, &s, &t, None)?;
                let _ = sc.neg(layouter, &s)?;
                let _ = sc.is_equal(layouter, &s, &t)?;
                let _ = sc.is_zero(layouter, &m)?;
                let _ = sc.inv0(layouter, &s)?;
                let _ = sc.assigned_to_le_bits(layouter, &s, None, true)?;
                let _ = sc.assigned_to_le_bytes(layouter, &t, None)?;
                let _ = sc.is_equal_to_fixed(layouter, &s, K256Scalar::ONE)?;
                let _ = sc.sgn0(layouter, &s)?;
                let b: AssignedBit<F> = sc.is_equal(layouter, &s, &t)?;
                let _ = sc.select(layouter, &b, &s, &t)?;
            }
            Op::BigUint => {
                let bg = std.biguint();
                let to_big = |f: F| BigUint::from_bytes_le(&f.to_bytes_le());
                let x = bg.assign_biguint(layouter, w[0].map(to_big), 256)?;
                let y = bg.assign_biguint(layouter, w[1].map(to_big), 256)?;
                let m = bg.assign_biguint(layouter, w[2].map(|f| to_big(f) + 1u8), 257)?;
                let s = bg.add(layouter, &x, &y)?;
                let _ = bg.mul(layouter, &x, &y)?;
                let _ = bg.sub(layouter, &s, &y)?;
                let _ = bg.div_rem(layouter, &x, &m)?;
                let _ = bg.mod_exp(layouter, &x, 5, &m)?;
                let _ = bg.lower_than(layouter, &x, &y)?;
                let _ = bg.is_equal(layouter, &x, &y)?;
                let _ = bg.to_le_bits(layouter, &x)?;
                let _ = bg.to_le_bytes(layouter, &y)?;
                let b: AssignedBit<F> = bg.is_equal(layouter, &x, &y)?;
                let _ = bg.select(layouter, &b, &x, &s)?;
            }
            Op::Poseidon => {
                let xs: Vec<AssignedNative<F>> = std.assign_many(layouter, &w)?;
                let _ = std.poseidon(layouter, &xs)?;
                let _ = std.poseidon(layouter, &xs[..1])?;
            }
            Op::HashToCurve => {
                let xs: Vec<AssignedNative<F>> = std.assign_many(layouter, &w)?;
                let _ = std.hash_to_curve(layouter, &xs)?;
            }
            Op::Sha256 | Op::Sha512 | Op::Keccak | Op::Sha3 | Op::Blake2b => {
                let bytes: Vec<Value<u8>> =
                    w.iter().map(|v| v.map(|f| f.to_bytes_le()[0])).collect();
                let bs: Vec<AssignedByte<F>> = std.assign_many(layouter, &bytes)?;
                match self.op {
                    Op::Sha256 => {
                        let _ = std.sha2_256(layouter, &bs)?;
                    }
                    Op::Sha512 => {
                        let _ = std.sha2_512(layouter, &bs)?;
                    }
                    Op::Keccak => {
                        let _ = std.keccak_256(layouter, &bs)?;
                    }
                    Op::Sha3 => {
                        let _ = std.sha3_256(layouter, &bs)?;
                    }
                    Op::Blake2b => {
                        let _ = std.blake2b_256(layouter, &bs)?;
                        let _ = std.blake2b_512(layouter, &bs)?;
                    }
                    _ => unreachable!(),
                }
            }
            Op::Bls => {
                let c = std.bls12_381_curve();
                let to_pt = |f: F| midnight_curves::G1Projective::generator() * f;
                let p = c.assign(layouter, w[0].map(to_pt))?;
                let q = c.assign(layouter, w[1].map(to_pt))?;
                let s: AssignedNative<F> = std.assign(layouter, w[2])?;
                let _ = c.add(layouter, &p, &q)?;
                let _ = c.msm(layouter, &[s], &[p])?;
            }
        }
        Ok(())
    }

    fn used_chips(&self) -> ZkStdLibArch {
        ZkStdLibArch {
            jubjub: true,
            poseidon: true,
            sha2_256: true,
            sha2_512: true,
            sha3_256: true,
            keccak_256: true,
            blake2b: true,
            secp256k1: true,
            bls12_381: true,
            base64: false,
            automaton: false,
            nr_pow2range_cols: 4,
        }
    }

    fn write_relation<W: std::io::Write>(&self, _writer: &mut W) -> std::io::Result<()> {
        Ok(())
    }

    fn read_relation<R: std::io::Read>(_reader: &mut R) -> std::io::Result<Self> {
        unimplemented!()
    }
}

fn interesting() -> Vec<F> {
    vec![
        F::ZERO,
        F::ONE,
        -F::ONE,
        F::from(2),
        F::from(u64::MAX),
        F::from(0xdeadbeefu64).square(),
        F::from(7).invert().unwrap(),
    ]
}

fn run(op: Op, n: usize, vals: Vec<F>) {
    let rel = Probe { op, n };
    // all tuples from `vals` of length n would be too many; use a sliding
    // selection plus all-equal tuples.
    let mut cases = vec![];
    for (i, v) in vals.iter().enumerate() {
        cases.push((format!("all={v:?}"), (), vec![*v; n]));
        let tuple: Vec<F> = (0..n).map(|j| vals[(i + j) % vals.len()]).collect();
        cases.push((format!("rot{i}"), (), tuple));
        if !matches!(op, Op::NativeCmp) {
            let tuple: Vec<F> = (0..n).map(|j| if j % 2 == 0 { *v } else { -*v }).collect();
            cases.push((format!("pm{i}"), (), tuple));
        }
    }
    let res = compare(&rel, cases);
    for (label, d) in &res {
        println!("[{op:?}] {label}:");
        for l in d {
            println!("    {l}");
        }
    }
    assert!(res.is_empty(), "{op:?}: structural differences found");
}

#[test]
fn probe_native_misc() {
    run(Op::NativeMisc, 2, interesting());
}

#[test]
fn probe_native_cmp() {
    let vals = vec![F::ZERO, F::ONE, F::from(u64::MAX), F::from(1000), F::from(999), F::from(1 << 63)];
    run(Op::NativeCmp, 2, vals);
}

#[test]
fn probe_jubjub() {
    run(Op::JubjubOps, 4, interesting());
}

#[test]
fn probe_secp_add() {
    run(Op::SecpAdd, 2, interesting());
}

#[test]
fn probe_secp_msm() {
    run(Op::SecpMsm, 4, interesting());
}

#[test]
fn probe_secp_scalar() {
    run(Op::SecpScalar, 2, interesting());
}

#[test]
fn probe_biguint() {
    run(Op::BigUint, 3, interesting());
}

#[test]
fn probe_poseidon() {
    run(Op::Poseidon, 5, interesting());
}

#[test]
fn probe_htc() {
    run(Op::HashToCurve, 2, interesting());
}

#[test]
fn probe_sha256() {
    run(Op::Sha256, 70, interesting());
}

#[test]
fn probe_sha512() {
    run(Op::Sha512, 130, interesting());
}

#[test]
fn probe_keccak() {
    run(Op::Keccak, 140, interesting());
}

#[test]
fn probe_sha3() {
    run(Op::Sha3, 140, interesting());
}

#[test]
fn probe_blake2b() {
    run(Op::Blake2b, 130, interesting());
}

#[test]
fn probe_bls() {
    run(Op::Bls, 3, interesting());
}

#[test]
fn debug_poseidon() {
    let rel = Probe { op: Op::Poseidon, n: 5 };
    let a = c09_common::record(&rel, Value::unknown(), Value::unknown(), 8).unwrap();
    let b = c09_common::record(&rel, Value::known(()), Value::known(vec![F::from(3); 5]), 8).unwrap();
    println!("unknown: {} advice cells, {} regions, max row {}", a.advice_cells.len(), a.regions.len(), a.max_row());
    println!("known: {} advice cells, {} regions, max row {}", b.advice_cells.len(), b.regions.len(), b.max_row());
    println!("{:?}", a.diff(&b));
}

#[test]
fn digest_all() {
    use std::hash::{Hash, Hasher};
    for (op, n) in [
        (Op::NativeMisc, 2),
        (Op::JubjubOps, 4),
        (Op::SecpMsm, 4),
        (Op::BigUint, 3),
        (Op::Sha256, 70),
        (Op::Keccak, 140),
        (Op::Blake2b, 130),
        (Op::Bls, 3),
    ] {
        let rel = Probe { op, n };
        let a = c09_common::record(&rel, Value::unknown(), Value::unknown(), 8).unwrap();
        let mut h = std::collections::hash_map::DefaultHasher::new();
        format!("{:?}", a).hash(&mut h);
        println!("DIGEST {op:?} {:x}", h.finish());
    }
}
