// HUNT (side observation, NOT a C09 violation) -- belongs in
// `zk_stdlib/tests/hunt_setup_vk_larger_srs.rs`.
//
// Run with:
//   CARGO_TARGET_DIR=/tmp/hunt-C09/target cargo test --offline --release -j 4 \
//       -p midnight-zk-stdlib --test hunt_setup_vk_larger_srs
//
// `midnight_zk_stdlib::setup_vk` is documented as "Downsizes the parameters to
// match the size of the Relation", but it forwards to `keygen_vk`, which
// rejects parameters whose size is not exactly `k_from_circuit` and the result
// is `expect`ed: with an SRS one size too large, `setup_vk` panics.

use ff::Field;
use midnight_circuits::instructions::{AssignmentInstructions, ZeroInstructions};
use midnight_circuits::types::AssignedNative;
use midnight_proofs::{
    circuit::{Layouter, Value},
    plonk::Error,
    poly::kzg::params::ParamsKZG,
};
use midnight_zk_stdlib::{MidnightCircuit, Relation, ZkStdLib, ZkStdLibArch};
use rand::rngs::OsRng;

type F = midnight_curves::Fq;

#[derive(Clone)]
struct Tiny;

impl Relation for Tiny {
    type Instance = ();
    type Witness = F;

    fn format_instance(_: &Self::Instance) -> Result<Vec<F>, Error> {
        Ok(vec![])
    }

    fn circuit(
        &self,
        std_lib: &ZkStdLib,
        layouter: &mut impl Layouter<F>,
        _instance: Value<Self::Instance>,
        witness: Value<Self::Witness>,
    ) -> Result<(), Error> {
        let x: AssignedNative<F> = std_lib.assign(layouter, witness)?;
        std_lib.assert_non_zero(layouter, &x)
    }

    fn used_chips(&self) -> ZkStdLibArch {
        ZkStdLibArch::default()
    }

    fn write_relation<W: std::io::Write>(&self, _writer: &mut W) -> std::io::Result<()> {
        Ok(())
    }

    fn read_relation<R: std::io::Read>(_reader: &mut R) -> std::io::Result<Self> {
        Ok(Tiny)
    }
}

#[test]
fn setup_vk_downsizes_a_larger_srs() {
    let _ = F::ONE;
    let k = MidnightCircuit::from_relation(&Tiny).min_k();
    // exact size: fine
    let srs = ParamsKZG::<midnight_curves::Bls12>::unsafe_setup(k, OsRng);
    let _ = midnight_zk_stdlib::setup_vk(&srs, &Tiny);
    // one size larger: documented to be downsized, but panics
    let srs = ParamsKZG::<midnight_curves::Bls12>::unsafe_setup(k + 1, OsRng);
    let _ = midnight_zk_stdlib::setup_vk(&srs, &Tiny);
}
