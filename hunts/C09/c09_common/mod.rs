//! C09 hunting helper: a structure recorder implementing `Assignment`.
//!
//! It synthesises a `MidnightCircuit` twice (or more) and records everything
//! that makes up the *fixed* part of the circuit: fixed cells, enabled
//! selectors, copy constraints, the set of assigned advice cells (row/column
//! usage), and the number of public inputs.

#![allow(dead_code)]

use std::collections::{BTreeMap, BTreeSet};

use midnight_proofs::{
    circuit::Value,
    plonk::{
        Advice, Any, Assignment, Challenge, Circuit, Column, ConstraintSystem, Error, Fixed,
        FloorPlanner, Instance, Selector,
    },
    utils::rational::Rational,
};
use midnight_zk_stdlib::{MidnightCircuit, Relation};

pub type F = midnight_curves::Fq;

#[derive(Default, Clone, PartialEq, Eq, Debug)]
pub struct Structure {
    pub fixed: BTreeMap<(usize, usize), F>,
    pub selectors: BTreeSet<(usize, usize)>,
    pub copies: BTreeSet<(String, usize, String, usize)>,
    /// Copy constraints in the order in which they were issued (the permutation
    /// built by keygen depends on this order).
    pub copies_ordered: Vec<(String, usize, String, usize)>,
    pub advice_cells: BTreeSet<(usize, usize)>,
    pub regions: Vec<String>,
}

impl Structure {
    pub fn max_row(&self) -> usize {
        let a = self.advice_cells.iter().map(|(_, r)| *r).max().unwrap_or(0);
        let b = self.fixed.keys().map(|(_, r)| *r).max().unwrap_or(0);
        a.max(b)
    }

    /// Human-readable description of the first differences.
    pub fn diff(&self, other: &Structure) -> Vec<String> {
        let mut out = vec![];
        if self.regions.len() != other.regions.len() {
            out.push(format!(
                "number of regions: {} vs {}",
                self.regions.len(),
                other.regions.len()
            ));
        }
        if let Some((i, (a, b))) =
            self.regions.iter().zip(other.regions.iter()).enumerate().find(|(_, (a, b))| a != b)
        {
            out.push(format!("first differing region #{i}: {a:?} vs {b:?}"));
        }
        let fa: BTreeSet<_> = self.fixed.iter().collect();
        let fb: BTreeSet<_> = other.fixed.iter().collect();
        let d: Vec<_> = fa.symmetric_difference(&fb).take(4).collect();
        if !d.is_empty() {
            out.push(format!(
                "fixed cells differ ({} vs {} cells), e.g. {:?}",
                fa.len(),
                fb.len(),
                d
            ));
        }
        let d: Vec<_> = self.selectors.symmetric_difference(&other.selectors).take(4).collect();
        if !d.is_empty() {
            out.push(format!(
                "selectors differ ({} vs {}), e.g. {:?}",
                self.selectors.len(),
                other.selectors.len(),
                d
            ));
        }
        let d: Vec<_> = self.copies.symmetric_difference(&other.copies).take(4).collect();
        if !d.is_empty() {
            out.push(format!(
                "copy constraints differ ({} vs {}), e.g. {:?}",
                self.copies.len(),
                other.copies.len(),
                d
            ));
        }
        if out.is_empty() && self.copies_ordered != other.copies_ordered {
            out.push("same set of copy constraints, but issued in a different order".to_string());
        }
        let d: Vec<_> =
            self.advice_cells.symmetric_difference(&other.advice_cells).take(4).collect();
        if !d.is_empty() {
            out.push(format!(
                "assigned advice cells differ ({} vs {}), e.g. {:?}",
                self.advice_cells.len(),
                other.advice_cells.len(),
                d
            ));
        }
        out
    }
}

pub struct Recorder {
    pub s: Structure,
    /// Name of the region being assigned (if any).
    pub current: Option<String>,
}

/// Regions whose *advice* usage is ignored, because they are affected by an
/// already recorded defect (PoseidonChip::partial_round).
const IGNORED_ADVICE_REGIONS: [&str; 1] = ["permutation layout"];

fn col_name(c: &Column<Any>) -> String {
    format!("{:?}#{}", c.column_type(), c.index())
}

impl Assignment<F> for Recorder {
    fn enter_region<NR, N>(&mut self, name_fn: N)
    where
        NR: Into<String>,
        N: FnOnce() -> NR,
    {
        let name: String = name_fn().into();
        self.current = Some(name.clone());
        self.s.regions.push(name);
    }

    fn annotate_column<A, AR>(&mut self, _annotation: A, _column: Column<Any>)
    where
        A: FnOnce() -> AR,
        AR: Into<String>,
    {
    }

    fn exit_region(&mut self) {
        self.current = None;
    }

    fn enable_selector<A, AR>(&mut self, _: A, selector: &Selector, row: usize) -> Result<(), Error>
    where
        A: FnOnce() -> AR,
        AR: Into<String>,
    {
        self.s.selectors.insert((selector.index(), row));
        Ok(())
    }

    fn query_instance(&self, _column: Column<Instance>, _row: usize) -> Result<Value<F>, Error> {
        Ok(Value::unknown())
    }

    fn assign_advice<V, VR, A, AR>(
        &mut self,
        _: A,
        column: Column<Advice>,
        row: usize,
        to: V,
    ) -> Result<(), Error>
    where
        V: FnOnce() -> Value<VR>,
        VR: Into<Rational<F>>,
        A: FnOnce() -> AR,
        AR: Into<String>,
    {
        // Like the real prover, evaluate the closure (this is what makes the
        // value of the returned `AssignedCell` known).
        let _ = to();
        if let Some(name) = &self.current {
            if IGNORED_ADVICE_REGIONS.contains(&name.as_str()) {
                return Ok(());
            }
        }
        self.s.advice_cells.insert((column.index(), row));
        Ok(())
    }

    fn assign_fixed<V, VR, A, AR>(
        &mut self,
        _: A,
        column: Column<Fixed>,
        row: usize,
        to: V,
    ) -> Result<(), Error>
    where
        V: FnOnce() -> Value<VR>,
        VR: Into<Rational<F>>,
        A: FnOnce() -> AR,
        AR: Into<String>,
    {
        let mut val = None;
        to().map(|v| {
            let r: Rational<F> = v.into();
            val = Some(r.evaluate())
        });
        let v = val.ok_or(Error::Synthesis("unknown fixed value".into()))?;
        self.s.fixed.insert((column.index(), row), v);
        Ok(())
    }

    fn copy(
        &mut self,
        left_column: Column<Any>,
        left_row: usize,
        right_column: Column<Any>,
        right_row: usize,
    ) -> Result<(), Error> {
        let a = (col_name(&left_column), left_row);
        let b = (col_name(&right_column), right_row);
        let (a, b) = if a <= b { (a, b) } else { (b, a) };
        self.s.copies_ordered.push((
            col_name(&left_column),
            left_row,
            col_name(&right_column),
            right_row,
        ));
        self.s.copies.insert((a.0, a.1, b.0, b.1));
        Ok(())
    }

    fn fill_from_row(
        &mut self,
        column: Column<Fixed>,
        row: usize,
        to: Value<Rational<F>>,
    ) -> Result<(), Error> {
        let mut val = None;
        to.map(|v| val = Some(v.evaluate()));
        // Encode with a sentinel row offset so that it is part of the comparison.
        self.s.fixed.insert((column.index(), usize::MAX - row), val.unwrap_or_default());
        Ok(())
    }

    fn get_challenge(&self, _challenge: Challenge) -> Value<F> {
        Value::unknown()
    }

    fn push_namespace<NR, N>(&mut self, _: N)
    where
        NR: Into<String>,
        N: FnOnce() -> NR,
    {
    }

    fn pop_namespace(&mut self, _: Option<String>) {}
}

/// Synthesises the given relation with the given (possibly unknown)
/// instance/witness and returns the recorded structure.
pub fn record<R: Relation>(
    relation: &R,
    instance: Value<R::Instance>,
    witness: Value<R::Witness>,
    max_bit_len: u8,
) -> Result<Structure, Error> {
    let circuit = MidnightCircuit::new(relation, instance, witness, Some(max_bit_len));
    let mut cs = ConstraintSystem::<F>::default();
    let config = MidnightCircuit::<R>::configure_with_params(&mut cs, relation.used_chips());
    let mut rec = Recorder {
        s: Structure::default(),
        current: None,
    };
    <MidnightCircuit<R> as Circuit<F>>::FloorPlanner::synthesize(
        &mut rec,
        &circuit,
        config,
        cs.constants().clone(),
    )?;
    Ok(rec.s)
}

/// Same as [record] but for an arbitrary circuit.
pub fn record_circuit<C: Circuit<F>>(circuit: &C) -> Result<Structure, Error> {
    let mut cs = ConstraintSystem::<F>::default();
    let config = C::configure_with_params(&mut cs, circuit.params());
    let mut rec = Recorder {
        s: Structure::default(),
        current: None,
    };
    C::FloorPlanner::synthesize(&mut rec, circuit, config, cs.constants().clone())?;
    Ok(rec.s)
}

/// Compares the structure for an unknown witness with the one for each of the
/// given witnesses. Returns the list of (label, differences).
pub fn compare<R: Relation>(
    relation: &R,
    cases: Vec<(String, R::Instance, R::Witness)>,
) -> Vec<(String, Vec<String>)>
where
    R::Instance: Clone,
    R::Witness: Clone,
{
    let base = record(relation, Value::unknown(), Value::unknown(), 8).expect("keygen synth");
    let base2 = record(relation, Value::unknown(), Value::unknown(), 8).expect("keygen synth");
    let mut out = vec![];
    let d = base.diff(&base2);
    if !d.is_empty() {
        out.push(("unknown-vs-unknown".to_string(), d));
    }
    for (label, inst, wit) in cases {
        match record(relation, Value::known(inst), Value::known(wit), 8) {
            Ok(s) => {
                let d = base.diff(&s);
                if !d.is_empty() {
                    out.push((label, d));
                }
            }
            Err(e) => out.push((label, vec![format!("synthesis error: {e:?}")])),
        }
    }
    out
}
