// HUNT C08 - defect 1
//
// Where it belongs: zkir/tests/hunt_c08_scalar_pi.rs  (integration test, public API only;
// copy this file there - a copy was left in place in the scratch worktree)
// How to run:
//   CARGO_TARGET_DIR=/tmp/hunt-C08/target cargo test --offline -j 4 \
//       -p midnight-zkir --test hunt_c08_scalar_pi -- --nocapture
//
// Defect: `Instantiable::as_public_input` for `AssignedScalarOfNativeCurve<C>`
// (circuits/src/ecc/native/edwards_chip.rs) always encodes a scalar on
// `C::NUM_BITS_SUBGROUP` (= 252 for Jubjub) bits, i.e. ONE raw public input.
// The in-circuit `PublicInputInstructions::as_public_input` /
// `constrain_as_public_input` instead chunks *however many bits the assigned
// scalar happens to carry* into 254-bit batches.  An `AssignedScalarOfNativeCurve`
// does not always carry 252 bits:
//   * `EccChip::scalar_from_le_bytes` yields 8 * nb_bytes bits (256 for 32 bytes),
//   * `ConversionInstructions<AssignedNative, AssignedScalarOfNativeCurve>::convert`
//     yields 255 bits.
// For such scalars the circuit constrains TWO (or more) instance cells, whereas
// the off-circuit formatter produces ONE, so the number of public inputs
// recorded in the verifying key differs from what `format_instance` yields and
// the honest proof is rejected by `verify`.
//
// ZKIR reaches this through `FromBytes(JubjubScalar)` followed by `Publish`.

use std::collections::HashMap;

use blake2b_simd::State as Blake2b;
use midnight_curves::Fr as JubjubFr;
use midnight_proofs::poly::kzg::params::ParamsKZG;
use midnight_zk_stdlib::{MidnightCircuit, Relation};
use midnight_zkir::{Instruction, IrType, IrValue, Operation, Operation::*, ZkirRelation};
use rand_chacha::rand_core::OsRng;

fn build(raw: &[(Operation, Vec<&'static str>, Vec<&'static str>)]) -> Vec<Instruction> {
    raw.iter()
        .map(|(op, inputs, outputs)| Instruction {
            operation: *op,
            inputs: inputs.iter().map(|s| s.to_string()).collect(),
            outputs: outputs.iter().map(|s| s.to_string()).collect(),
        })
        .collect()
}

/// Honest flow: the prover derives the public inputs with the library's own
/// off-circuit pass, proves, and the verifier verifies against the very same
/// public inputs. Returns (raw pi length, nb PIs recorded in the vk, verify
/// result).
fn honest_flow(nb_bytes: usize, scalar: u64) -> (usize, usize, Result<(), String>) {
    let program = build(&[
        (Load(IrType::Bytes(nb_bytes)), vec![], vec!["bytes"]),
        (FromBytes(IrType::JubjubScalar), vec!["bytes"], vec!["s"]),
        (Publish, vec!["s"], vec![]),
    ]);
    let relation = ZkirRelation::from_instructions(&program).unwrap();

    let mut bytes = vec![0u8; nb_bytes];
    bytes[..8].copy_from_slice(&scalar.to_le_bytes());
    let witness: HashMap<&'static str, IrValue> = HashMap::from_iter([("bytes", bytes.into())]);

    let k = MidnightCircuit::from_relation(&relation).min_k();
    let srs = ParamsKZG::unsafe_setup(k, OsRng);
    let vk = midnight_zk_stdlib::setup_vk(&srs, &relation);
    let pk = midnight_zk_stdlib::setup_pk(&relation, &vk);

    // Off-circuit pass of the library: which public inputs does this program have?
    let instance = relation.public_inputs(witness.clone()).expect("off-circuit pass");
    assert_eq!(
        instance,
        vec![(JubjubFr::from(scalar).into(), IrType::JubjubScalar)],
        "the off-circuit pass publishes the scalar {scalar}"
    );
    let raw_pi = ZkirRelation::format_instance(&instance).unwrap();

    let proof =
        midnight_zk_stdlib::prove::<_, Blake2b>(&srs, &pk, &relation, &instance, witness, OsRng);

    let verdict = match proof {
        Err(e) => Err(format!("prove failed: {e:?}")),
        Ok(proof) => midnight_zk_stdlib::verify::<ZkirRelation, Blake2b>(
            &srs.verifier_params(),
            &vk,
            &instance,
            None,
            &proof,
        )
        .map_err(|e| format!("verify failed: {e:?}")),
    };

    // Number of raw public inputs recorded at key generation (= number of
    // instance cells the circuit constrained).
    let nb_vk = nb_public_inputs_in_vk(&vk);

    (raw_pi.len(), nb_vk, verdict)
}

/// Reads `nb_public_inputs` back from the serialised `MidnightVK`
/// (public `write` API), without relying on private fields.
fn nb_public_inputs_in_vk(vk: &midnight_zk_stdlib::MidnightVK) -> usize {
    use midnight_proofs::utils::SerdeFormat;
    let mut full = vec![];
    vk.write(&mut full, SerdeFormat::RawBytes).unwrap();
    let mut inner = vec![];
    vk.vk().write(&mut inner, SerdeFormat::RawBytes).unwrap();
    // Layout: [architecture][max_bit_len: u8][nb_public_inputs: u32 LE][inner vk]
    let header = &full[..full.len() - inner.len()];
    let n = header.len();
    u32::from_le_bytes(header[n - 4..].try_into().unwrap()) as usize
}

/// Control: with 31 bytes (248 bits) everything agrees, so the harness is sound.
#[test]
fn control_31_bytes_scalar_is_published_consistently() {
    let (off_circuit_len, vk_len, verdict) = honest_flow(31, 5);
    assert_eq!(off_circuit_len, 1);
    assert_eq!(vk_len, 1);
    assert_eq!(verdict, Ok(()));
}

/// Defect: with 32 bytes (the natural size of a Jubjub scalar, and the size
/// `IntoBytes(32)` produces) the circuit binds 2 raw public inputs but the
/// off-circuit encoding of the very same scalar has 1, so an honest proof of a
/// true statement is rejected.
#[test]
fn scalar_from_32_bytes_is_published_consistently() {
    let (off_circuit_len, vk_len, verdict) = honest_flow(32, 5);
    println!("off-circuit raw PIs: {off_circuit_len}, PIs recorded at keygen: {vk_len}, verdict: {verdict:?}");
    assert_eq!(
        off_circuit_len, vk_len,
        "off-circuit encoding length must equal the number of instance cells the circuit binds"
    );
    assert_eq!(verdict, Ok(()), "honest proof of a true statement must verify");
}

// ---------------------------------------------------------------------------
// Same defect, reached directly through the zk_stdlib / circuits public API
// (no ZKIR involved): a scalar obtained with the public conversion
// `AssignedNative -> AssignedScalarOfNativeCurve` (used in
// zk_stdlib/examples/ecc_ops.rs) carries 255 bits, so exposing it binds two
// instance cells whereas `AssignedScalarOfNativeCurve::as_public_input` yields
// one.
// ---------------------------------------------------------------------------
mod via_convert {
    use ff::Field;
    use midnight_circuits::{
        ecc::native::AssignedScalarOfNativeCurve,
        instructions::{AssignmentInstructions, ConversionInstructions, PublicInputInstructions},
        types::Instantiable,
    };
    use midnight_curves::{Fr as JubjubScalar, JubjubExtended as Jubjub};
    use midnight_proofs::{
        circuit::{Layouter, Value},
        plonk::Error,
        poly::kzg::params::ParamsKZG,
    };
    use midnight_zk_stdlib::{MidnightCircuit, Relation, ZkStdLib, ZkStdLibArch};
    use rand_chacha::rand_core::OsRng;

    type F = midnight_curves::Fq;

    #[derive(Clone, Default)]
    struct ExposeConvertedScalar;

    impl Relation for ExposeConvertedScalar {
        type Instance = JubjubScalar;
        // The same integer, as a native field element.
        type Witness = F;

        fn format_instance(instance: &Self::Instance) -> Result<Vec<F>, Error> {
            Ok(AssignedScalarOfNativeCurve::<Jubjub>::as_public_input(instance))
        }

        fn circuit(
            &self,
            std_lib: &ZkStdLib,
            layouter: &mut impl Layouter<F>,
            _instance: Value<Self::Instance>,
            witness: Value<Self::Witness>,
        ) -> Result<(), Error> {
            let x = std_lib.assign(layouter, witness)?;
            let s: AssignedScalarOfNativeCurve<Jubjub> = std_lib.jubjub().convert(layouter, &x)?;
            std_lib.jubjub().constrain_as_public_input(layouter, &s)
        }

        fn used_chips(&self) -> ZkStdLibArch {
            ZkStdLibArch {
                jubjub: true,
                ..ZkStdLibArch::default()
            }
        }

        fn write_relation<W: std::io::Write>(&self, _writer: &mut W) -> std::io::Result<()> {
            Ok(())
        }

        fn read_relation<R: std::io::Read>(_reader: &mut R) -> std::io::Result<Self> {
            Ok(ExposeConvertedScalar)
        }
    }

    #[test]
    fn converted_scalar_is_published_consistently() {
        let relation = ExposeConvertedScalar;
        let k = MidnightCircuit::from_relation(&relation).min_k();
        let srs = ParamsKZG::unsafe_setup(k, OsRng);
        let vk = midnight_zk_stdlib::setup_vk(&srs, &relation);
        let pk = midnight_zk_stdlib::setup_pk(&relation, &vk);

        // The scalar 7 (far below the Jubjub group order, so no reduction is involved).
        let instance = JubjubScalar::from(7u64);
        let witness = F::from(7u64);
        assert!(bool::from(!instance.is_zero()));

        let raw_pi = ExposeConvertedScalar::format_instance(&instance).unwrap();
        let nb_vk = super::nb_public_inputs_in_vk(&vk);
        println!("off-circuit raw PIs: {}, PIs recorded at keygen: {nb_vk}", raw_pi.len());

        let proof = midnight_zk_stdlib::prove::<_, blake2b_simd::State>(
            &srs, &pk, &relation, &instance, witness, OsRng,
        )
        .expect("proof generation");

        let verdict = midnight_zk_stdlib::verify::<ExposeConvertedScalar, blake2b_simd::State>(
            &srs.verifier_params(),
            &vk,
            &instance,
            None,
            &proof,
        );
        println!("verdict: {verdict:?}");

        assert_eq!(raw_pi.len(), nb_vk);
        assert!(verdict.is_ok());
    }
}
