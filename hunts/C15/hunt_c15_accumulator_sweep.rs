// HUNT C15 -- examination sweep of the off-circuit accumulator algebra
// (NOT a defect: this test PASSES on the unchanged code, with and without
// `--features truncated-challenges`).
//
// Where it belongs : circuits/tests/hunt_c15_accumulator_sweep.rs
// How to run       :
//   mkdir -p circuits/tests && cp _hunt/hunt_c15_accumulator_sweep.rs circuits/tests/
//   CARGO_TARGET_DIR=/tmp/hunt-C15/target cargo test --offline -j 4 -p midnight-circuits \
//       --test hunt_c15_accumulator_sweep -- --nocapture
//
// Members: valid / invalid guards of two different verifying keys ("vk1", "vk2"),
// converted with `from_dual_msm` (one guard at a time, as the library itself does),
// then `accumulate`d in batches of 1..=5 in every order with repetitions, with and
// without `collapse` before and after. The result must satisfy `check` iff every
// member does.

use std::collections::BTreeMap;

use ff::Field;
use midnight_circuits::{
    hash::poseidon::PoseidonState,
    verifier::{self, Accumulator, BlstrsEmulation},
};
use midnight_curves::{Bls12, Fq as F};
use midnight_proofs::{
    circuit::{Layouter, SimpleFloorPlanner, Value},
    plonk::{
        create_proof, keygen_pk, keygen_vk_with_k, prepare, Advice, Circuit, Column,
        ConstraintSystem, Constraints, Error, Fixed, Instance, ProvingKey, VerifyingKey,
    },
    poly::{
        kzg::{
            msm::DualMSM,
            params::ParamsKZG,
            KZGCommitmentScheme,
        },
        Rotation,
    },
    transcript::{CircuitTranscript, Transcript},
};
use rand::SeedableRng;
use rand_chacha::ChaCha8Rng;

type S = BlstrsEmulation;
type H = PoseidonState<F>;
type Vk = VerifyingKey<F, KZGCommitmentScheme<Bls12>>;
type Pk = ProvingKey<F, KZGCommitmentScheme<Bls12>>;

// ---------------------------------------------------------------------------
// A tiny "standard plonk" circuit (same as proofs/examples/serialization.rs):
// 5 fixed columns, 3 advice columns with equality enabled (=> permutation
// commitments), one instance column.
// ---------------------------------------------------------------------------

#[derive(Clone, Copy)]
struct StandardPlonkConfig {
    a: Column<Advice>,
    b: Column<Advice>,
    c: Column<Advice>,
    q_a: Column<Fixed>,
    q_b: Column<Fixed>,
    q_c: Column<Fixed>,
    q_ab: Column<Fixed>,
    constant: Column<Fixed>,
    #[allow(dead_code)]
    instance: Column<Instance>,
}

impl StandardPlonkConfig {
    fn configure(meta: &mut ConstraintSystem<F>) -> Self {
        let [a, b, c] = [(); 3].map(|_| meta.advice_column());
        let [q_a, q_b, q_c, q_ab, constant] = [(); 5].map(|_| meta.fixed_column());
        let instance = meta.instance_column();

        [a, b, c].iter().for_each(|column| meta.enable_equality(*column));

        meta.create_gate(
            "q_a·a + q_b·b + q_c·c + q_ab·a·b + constant + instance = 0",
            |meta| {
                let [a, b, c] = [a, b, c].map(|column| meta.query_advice(column, Rotation::cur()));
                let [q_a, q_b, q_c, q_ab, constant] = [q_a, q_b, q_c, q_ab, constant]
                    .map(|column| meta.query_fixed(column, Rotation::cur()));
                let instance = meta.query_instance(instance, Rotation::cur());
                Constraints::without_selector(vec![(
                    "Arithmetic gate",
                    q_a * &a + q_b * &b + q_c * c + q_ab * a * b + constant + instance,
                )])
            },
        );

        StandardPlonkConfig {
            a,
            b,
            c,
            q_a,
            q_b,
            q_c,
            q_ab,
            constant,
            instance,
        }
    }
}

#[derive(Clone, Default)]
struct StandardPlonk(F, u64);

impl Circuit<F> for StandardPlonk {
    type Config = StandardPlonkConfig;
    type FloorPlanner = SimpleFloorPlanner;
    type Params = ();

    fn without_witnesses(&self) -> Self {
        Self::default()
    }

    fn configure(meta: &mut ConstraintSystem<F>) -> Self::Config {
        StandardPlonkConfig::configure(meta)
    }

    fn synthesize(
        &self,
        config: Self::Config,
        mut layouter: impl Layouter<F>,
    ) -> Result<(), Error> {
        layouter.assign_region(
            || "",
            |mut region| {
                region.assign_advice(|| "", config.a, 0, || Value::known(self.0))?;
                region.assign_fixed(|| "", config.q_a, 0, || Value::known(-F::ONE))?;

                region.assign_advice(|| "", config.a, 1, || Value::known(-F::from(5u64)))?;
                for (idx, column) in (1..).zip([
                    config.q_a,
                    config.q_b,
                    config.q_c,
                    config.q_ab,
                    config.constant,
                ]) {
                    region.assign_fixed(|| "", column, 1, || Value::known(F::from(self.1 * idx as u64)))?;
                }

                let a = region.assign_advice(|| "", config.a, 2, || Value::known(F::ONE))?;
                a.copy_advice(|| "", &mut region, config.b, 3)?;
                a.copy_advice(|| "", &mut region, config.c, 4)?;
                Ok(())
            },
        )
    }
}

const K: u32 = 4;

fn setup(params: &ParamsKZG<Bls12>, variant: u64) -> (Vk, Pk) {
    let c = StandardPlonk(F::ZERO, variant);
    let vk = keygen_vk_with_k::<_, KZGCommitmentScheme<Bls12>, _>(params, &c, K).expect("keygen_vk");
    let pk = keygen_pk(vk.clone(), &c).expect("keygen_pk");
    (vk, pk)
}

fn prove(params: &ParamsKZG<Bls12>, pk: &Pk, variant: u64, x: F, rng: &mut ChaCha8Rng) -> Vec<u8> {
    let mut transcript = CircuitTranscript::<H>::init();
    create_proof::<F, KZGCommitmentScheme<Bls12>, CircuitTranscript<H>, StandardPlonk>(
        params,
        pk,
        &[StandardPlonk(x, variant)],
        0,
        &[&[&[x]]],
        &mut *rng,
        &mut transcript,
    )
    .expect("create_proof");
    transcript.finalize()
}

fn guard(vk: &Vk, x: F, proof: &[u8]) -> DualMSM<Bls12> {
    let mut transcript = CircuitTranscript::<H>::init_from_bytes(proof);
    let g = prepare::<F, KZGCommitmentScheme<Bls12>, CircuitTranscript<H>>(
        vk,
        &[&[]],
        &[&[&[x]]],
        &mut transcript,
    )
    .expect("prepare");
    g
}


#[derive(Clone)]
struct Member {
    acc: Accumulator<S>,
    valid: bool,
}

#[test]
fn accumulate_accepts_exactly_the_all_valid_batches() {
    let mut rng = ChaCha8Rng::from_seed([17u8; 32]);
    let params = ParamsKZG::<Bls12>::unsafe_setup(K, &mut rng);
    let vparams = params.verifier_params();
    let tau_g2 = params.s_g2().into();

    let mut fixed_bases = BTreeMap::new();
    let mut members: Vec<Member> = vec![];
    for (name, variant) in [("vk1", 1u64), ("vk2", 2u64)] {
        let (vk, pk) = setup(&params, variant);
        let fb = verifier::fixed_bases::<S>(name, &vk);
        fixed_bases.extend(fb.clone());
        for _ in 0..2 {
            let x = F::random(&mut rng);
            let proof = prove(&params, &pk, variant, x, &mut rng);
            // valid member
            let g = guard(&vk, x, &proof);
            assert!(g.clone().check(&vparams));
            members.push(Member {
                acc: Accumulator::<S>::from_dual_msm(g, name, &fb),
                valid: true,
            });
            // invalid member: wrong public input
            let g = guard(&vk, x + F::ONE, &proof);
            assert!(!g.clone().check(&vparams));
            members.push(Member {
                acc: Accumulator::<S>::from_dual_msm(g, name, &fb),
                valid: false,
            });
        }
    }
    // An invalid member by "wrong vk": proof of vk1 prepared under vk2 is refused by
    // `from_dual_msm` only if labels mismatch; here we simply take a valid acc and break
    // its lhs.
    {
        let m = members[0].clone();
        let broken = Accumulator::<S>::new(m.acc.rhs(), m.acc.lhs());
        members.push(Member { acc: broken, valid: false });
    }

    for m in members.iter() {
        assert_eq!(m.acc.check(&tau_g2, &fixed_bases), m.valid);
        let mut c = m.acc.clone();
        c.collapse();
        assert_eq!(c.check(&tau_g2, &fixed_bases), m.valid, "collapse preserves validity");
    }

    let n = members.len();
    let mut checked = 0usize;
    let mut failures = vec![];
    // deterministic pseudo-random batches
    use rand::Rng;
    for size in 1..=5usize {
        for trial in 0..120 {
            let idx: Vec<usize> = (0..size)
                .map(|_| {
                    // bias towards valid members so that all-valid batches are frequent
                    if rng.gen_bool(0.7) {
                        let valid_ids: Vec<usize> =
                            (0..n).filter(|&i| members[i].valid).collect();
                        valid_ids[rng.gen_range(0..valid_ids.len())]
                    } else {
                        rng.gen_range(0..n)
                    }
                })
                .collect();
            let expect = idx.iter().all(|&i| members[i].valid);
            let mut accs: Vec<Accumulator<S>> =
                idx.iter().map(|&i| members[i].acc.clone()).collect();
            if trial % 3 == 1 {
                accs.iter_mut().for_each(|a| a.collapse());
            }
            let mut res = Accumulator::<S>::accumulate(&accs);
            if trial % 2 == 1 {
                res.collapse();
            }
            checked += 1;
            if res.check(&tau_g2, &fixed_bases) != expect {
                failures.push(format!("batch {idx:?} (trial {trial}) expected {expect}"));
            }
            // nested accumulation
            if size >= 2 {
                let head = Accumulator::<S>::accumulate(&accs[..size / 2]);
                let tail = Accumulator::<S>::accumulate(&accs[size / 2..]);
                let nested = Accumulator::<S>::accumulate(&[tail, head]);
                checked += 1;
                if nested.check(&tau_g2, &fixed_bases) != expect {
                    failures.push(format!("nested batch {idx:?} expected {expect}"));
                }
            }
        }
    }
    println!("checked {checked} batches; {} failures", failures.len());
    failures.iter().for_each(|f| println!("  {f}"));
    assert!(failures.is_empty());
}
