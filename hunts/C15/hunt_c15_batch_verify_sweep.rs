// HUNT C15 -- examination sweep (NOT a defect: this test PASSES on the unchanged code).
//
// Where it belongs : zk_stdlib/tests/hunt_c15_batch_verify_sweep.rs
// How to run       :
//   cp _hunt/hunt_c15_batch_verify_sweep.rs zk_stdlib/tests/
//   CARGO_TARGET_DIR=/tmp/hunt-C15/target cargo test --offline -j 4 -p midnight-zk-stdlib \
//       --test hunt_c15_batch_verify_sweep -- --nocapture
//
// Sweeps `midnight_zk_stdlib::batch_verify` over batch sizes 0..=4, mixed vks (of different k),
// repeated members, every position invalid by (proof corruption at several
// offsets / truncation / trailing byte, wrong public input, wrong number of
// public inputs, wrong vk), and length-mismatched argument slices. The batch
// must be accepted iff every member is accepted by `verify` and must never panic.

use std::panic::{catch_unwind, AssertUnwindSafe};

use ff::Field;
use midnight_circuits::{
    hash::poseidon::PoseidonChip,
    instructions::{
        hash::HashCPU, AssertionInstructions, AssignmentInstructions, PublicInputInstructions,
    },
};
use midnight_curves::Bls12;
use midnight_proofs::{
    circuit::{Layouter, Value},
    plonk::Error,
    poly::kzg::params::{ParamsKZG, ParamsVerifierKZG},
};
use midnight_zk_stdlib::{MidnightVK, Relation, ZkStdLib, ZkStdLibArch};
use rand::SeedableRng;
use rand_chacha::ChaCha8Rng;

type F = midnight_curves::Fq;
type H = blake2b_simd::State;

#[derive(Clone)]
struct PIsCircuit {
    nb_public_inputs: u32,
}

impl Relation for PIsCircuit {
    type Instance = Vec<F>;
    type Witness = Vec<F>;

    fn format_instance(x: &Self::Instance) -> Result<Vec<F>, Error> {
        Ok(x.clone())
    }

    fn circuit(
        &self,
        std_lib: &ZkStdLib,
        layouter: &mut impl Layouter<F>,
        instance: Value<Self::Instance>,
        witness: Value<Self::Witness>,
    ) -> Result<(), Error> {
        let inputs = instance
            .transpose_vec(self.nb_public_inputs as usize)
            .into_iter()
            .map(|input| std_lib.assign_as_public_input(layouter, input))
            .collect::<Result<Vec<_>, Error>>()?;

        let preimage_values = witness.transpose_vec(self.nb_public_inputs as usize);
        let preimages = std_lib.assign_many(layouter, &preimage_values)?;

        let hashes = preimages
            .into_iter()
            .map(|preimage| std_lib.poseidon(layouter, &[preimage]))
            .collect::<Result<Vec<_>, Error>>()?;

        for (input, hash) in inputs.iter().zip(hashes.iter()) {
            std_lib.assert_equal(layouter, input, hash)?;
        }
        Ok(())
    }

    fn write_relation<W: std::io::Write>(&self, writer: &mut W) -> std::io::Result<()> {
        writer.write_all(&self.nb_public_inputs.to_le_bytes())
    }

    fn read_relation<R: std::io::Read>(reader: &mut R) -> std::io::Result<Self> {
        let mut bytes = [0u8; 4];
        reader.read_exact(&mut bytes)?;
        Ok(PIsCircuit {
            nb_public_inputs: u32::from_le_bytes(bytes),
        })
    }

    fn used_chips(&self) -> ZkStdLibArch {
        ZkStdLibArch {
            poseidon: true,
            ..ZkStdLibArch::default()
        }
    }
}

#[derive(Clone)]
struct Member {
    vk: MidnightVK,
    pi: Vec<F>,
    proof: Vec<u8>,
}

fn make_members(
    srs: &ParamsKZG<Bls12>,
    nb: u32,
    how_many: usize,
    rng: &mut ChaCha8Rng,
) -> Vec<Member> {
    let relation = PIsCircuit {
        nb_public_inputs: nb,
    };
    let mut srs = srs.clone();
    midnight_zk_stdlib::downsize_srs_for_relation(&mut srs, &relation);
    {
        use midnight_proofs::poly::commitment::Params;
        println!("relation with {nb} public inputs: k = {}", srs.max_k());
    }
    let vk = midnight_zk_stdlib::setup_vk(&srs, &relation);
    let pk = midnight_zk_stdlib::setup_pk(&relation, &vk);
    (0..how_many)
        .map(|_| {
            let witness = (0..nb).map(|_| F::random(&mut *rng)).collect::<Vec<_>>();
            let instance = witness
                .iter()
                .map(|w| <PoseidonChip<F> as HashCPU<F, F>>::hash(&[*w]))
                .collect::<Vec<_>>();
            let proof = midnight_zk_stdlib::prove::<PIsCircuit, H>(
                &srs, &pk, &relation, &instance, witness, &mut *rng,
            )
            .expect("prove");
            Member {
                vk: vk.clone(),
                pi: instance,
                proof,
            }
        })
        .collect()
}

fn single(vp: &ParamsVerifierKZG<Bls12>, m: &Member) -> bool {
    midnight_zk_stdlib::batch_verify::<H>(
        vp,
        std::slice::from_ref(&m.vk),
        std::slice::from_ref(&m.pi),
        std::slice::from_ref(&m.proof),
    )
    .is_ok()
}

/// Returns Some(accepted) or None on panic.
fn batch(vp: &ParamsVerifierKZG<Bls12>, ms: &[Member]) -> Option<bool> {
    let vks = ms.iter().map(|m| m.vk.clone()).collect::<Vec<_>>();
    let pis = ms.iter().map(|m| m.pi.clone()).collect::<Vec<_>>();
    let proofs = ms.iter().map(|m| m.proof.clone()).collect::<Vec<_>>();
    catch_unwind(AssertUnwindSafe(|| {
        midnight_zk_stdlib::batch_verify::<H>(vp, &vks, &pis, &proofs).is_ok()
    }))
    .ok()
}

#[test]
fn batch_verify_accepts_exactly_the_all_valid_batches() {
    let mut rng = ChaCha8Rng::from_seed([15u8; 32]);
    let srs = ParamsKZG::<Bls12>::unsafe_setup(13, &mut rng);
    let vp = srs.verifier_params();

    let a = make_members(&srs, 1, 2, &mut rng);
    let b = make_members(&srs, 60, 2, &mut rng);
    let valid: Vec<Member> = vec![a[0].clone(), b[0].clone(), a[1].clone(), b[1].clone()];

    // Sanity: members are individually valid, also through `verify`.
    for m in valid.iter() {
        assert!(single(&vp, m));
    }

    // Invalid variants of a member.
    let invalidate = |m: &Member, other_vk: &MidnightVK| -> Vec<(&'static str, Member)> {
        let mut out = vec![];
        let n = m.proof.len();
        for (name, off) in [
            ("first byte", 0usize),
            ("middle", n / 2),
            ("last G1 (pi)", n - 20),
            ("last byte", n - 1),
        ] {
            let mut x = m.clone();
            x.proof[off] ^= 0x01;
            out.push((name, x));
        }
        let mut x = m.clone();
        x.proof.pop();
        out.push(("truncated", x));
        let mut x = m.clone();
        x.proof.push(0);
        out.push(("trailing byte", x));
        let mut x = m.clone();
        x.proof.clear();
        out.push(("empty proof", x));
        let mut x = m.clone();
        x.pi[0] += F::ONE;
        out.push(("wrong pi", x));
        let mut x = m.clone();
        x.pi.push(F::ZERO);
        out.push(("extra pi", x));
        let mut x = m.clone();
        x.pi.pop();
        out.push(("missing pi", x));
        let mut x = m.clone();
        x.vk = other_vk.clone();
        out.push(("wrong vk", x));
        out
    };

    let mut checked = 0usize;
    let mut failures = vec![];

    // All valid batches (with order permutations and repetitions) of size 0..=4.
    let idx_sets: Vec<Vec<usize>> = vec![
        vec![],
        vec![0],
        vec![1],
        vec![0, 0],
        vec![0, 1],
        vec![1, 0],
        vec![0, 2],
        vec![0, 1, 2],
        vec![2, 1, 0],
        vec![1, 1, 1],
        vec![0, 1, 2, 3],
        vec![3, 0, 2, 1],
        vec![0, 0, 1, 1],
    ];
    for set in idx_sets.iter() {
        let ms: Vec<Member> = set.iter().map(|&i| valid[i].clone()).collect();
        checked += 1;
        match batch(&vp, &ms) {
            Some(true) => {}
            other => failures.push(format!("valid batch {set:?} -> {other:?}")),
        }

        // Now make each position invalid in every way.
        for pos in 0..ms.len() {
            let other_vk = if ms[pos].pi.len() == 1 {
                &b[0].vk
            } else {
                &a[0].vk
            };
            for (name, bad) in invalidate(&ms[pos], other_vk) {
                assert!(
                    !catch_unwind(AssertUnwindSafe(|| single(&vp, &bad))).unwrap_or(false),
                    "the variant '{name}' is individually rejected"
                );
                let mut ms2 = ms.clone();
                ms2[pos] = bad;
                checked += 1;
                match batch(&vp, &ms2) {
                    Some(false) => {}
                    other => {
                        failures.push(format!("batch {set:?} with pos {pos} {name} -> {other:?}"))
                    }
                }
            }
        }
    }

    // Length-mismatched batches give an error, not a panic.
    let vks = vec![a[0].vk.clone(), b[0].vk.clone()];
    let pis = vec![a[0].pi.clone(), b[0].pi.clone()];
    let proofs = vec![a[0].proof.clone(), b[0].proof.clone()];
    for (lv, lp, lq) in [(2, 1, 2), (2, 2, 1), (1, 2, 2), (0, 1, 1), (1, 0, 0), (2, 0, 2)] {
        checked += 1;
        let r = catch_unwind(AssertUnwindSafe(|| {
            midnight_zk_stdlib::batch_verify::<H>(&vp, &vks[..lv], &pis[..lp], &proofs[..lq])
                .is_ok()
        }));
        if !matches!(r, Ok(false)) {
            failures.push(format!("length mismatch ({lv},{lp},{lq}) -> {r:?}"));
        }
    }

    println!("checked {checked} batches; {} failures", failures.len());
    for f in failures.iter() {
        println!("  {f}");
    }
    assert!(failures.is_empty());
}
