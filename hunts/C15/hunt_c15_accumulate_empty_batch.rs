// HUNT C15 -- defect 2 (minor): `Accumulator::accumulate` crashes on the empty batch.
//
// Where it belongs : circuits/tests/hunt_c15_accumulate_empty_batch.rs
//                    (integration test of the crate `midnight-circuits`, public API only)
// How to run       :
//   mkdir -p circuits/tests && cp _hunt/hunt_c15_accumulate_empty_batch.rs circuits/tests/
//   CARGO_TARGET_DIR=/tmp/hunt-C15/target cargo test --offline -j 4 -p midnight-circuits \
//       --test hunt_c15_accumulate_empty_batch -- --nocapture
//
// `Accumulator::accumulate(&[])` indexes `accs[0]` unconditionally and panics with
// "index out of bounds: the len is 0 but the index is 0". (The in-circuit analog
// `AssignedAccumulator::accumulate` has the very same `accs[0]`.)
//
// Expected behaviour (property C15, last sentence: "An empty or length-mismatched
// batch is answered with a result value, never with a crash"): the empty batch is
// vacuously valid, exactly as `midnight_zk_stdlib::batch_verify` and
// `Guard::batch_verify` now answer it; the natural result is the neutral accumulator
// (two empty MSMs, both sides evaluate to the identity), which satisfies the invariant.

use std::{
    collections::BTreeMap,
    panic::{catch_unwind, AssertUnwindSafe},
};

use group::Group;
use midnight_circuits::verifier::{Accumulator, BlstrsEmulation, Msm};
use midnight_curves::{pairing::Engine, Bls12, G1Projective as C};

type S = BlstrsEmulation;

#[test]
fn accumulate_of_the_empty_batch_is_a_result_not_a_crash() {
    let fixed_bases: BTreeMap<String, C> = BTreeMap::new();
    let tau_g2 = (<Bls12 as Engine>::G2::generator() * midnight_curves::Fq::from(42u64)).into();

    // The neutral accumulator exists, is well formed and satisfies the invariant:
    let neutral = Accumulator::<S>::new(Msm::from_terms(&[], &[]), Msm::from_terms(&[], &[]));
    assert!(neutral.check(&tau_g2, &fixed_bases));
    // ... and accumulating a batch of one member is fine:
    assert!(Accumulator::<S>::accumulate(&[neutral]).check(&tau_g2, &fixed_bases));

    // The empty batch must be answered with a value.
    let res = catch_unwind(AssertUnwindSafe(|| Accumulator::<S>::accumulate(&[])));
    match res {
        Ok(acc) => assert!(
            acc.check(&tau_g2, &fixed_bases),
            "the empty batch is vacuously valid"
        ),
        Err(_) => panic!("DEFECT: Accumulator::accumulate(&[]) panicked instead of returning a value"),
    }
}
