// C06 hunt, defect 1.
//
// Where it belongs: circuits/tests/c06_foreign_mul_by_constant_identity.rs
// (integration test of the `midnight-circuits` crate, public API only).
//
// How to run:
//   cp _hunt/c06_foreign_mul_by_constant_identity.rs circuits/tests/
//   CARGO_TARGET_DIR=/tmp/hunt-C06/target cargo test --offline -j 4 \
//       -p midnight-circuits --features testing \
//       --test c06_foreign_mul_by_constant_identity
//
// Defect: `ForeignEccChip::mul_by_constant(scalar, base)` makes the circuit
// UNSATISFIABLE when `base` is the identity and `scalar` needs more than 128
// bits, although `EccInstructions::mul_by_constant` promises "The base can be
// the identity point" (and k * identity = identity is the correct result).
// For scalars of at most 128 bits the identity is handled (select g / select
// id around `mul_by_u128`), but for larger scalars the code calls
// `msm_by_le_bits` -> `windowed_msm`, which asserts `base.is_id == 0`.

use std::marker::PhantomData;

use ff::Field;
use group::Group;
use midnight_circuits::{
    ecc::{curves::CircuitCurve, foreign::ForeignEccChip},
    field::{
        decomposition::chip::P2RDecompositionChip,
        foreign::{params::MultiEmulationParams, FieldChip},
        NativeChip, NativeGadget,
    },
    instructions::{AssertionInstructions, AssignmentInstructions, EccInstructions},
    testing_utils::FromScratch,
};
use midnight_curves::{k256::K256, Fq as BlsScalar, G1Projective as BlsG1};
use midnight_proofs::{
    circuit::{Layouter, SimpleFloorPlanner, Value},
    dev::MockProver,
    plonk::{Circuit, ConstraintSystem, Error},
};

type F = BlsScalar;
type Native = NativeGadget<F, P2RDecompositionChip<F>, NativeChip<F>>;
type EmulatedScalar<C> = FieldChip<F, <C as Group>::Scalar, MultiEmulationParams, Native>;

type SecpChip = ForeignEccChip<F, K256, MultiEmulationParams, EmulatedScalar<K256>, Native>;
type BlsChip = ForeignEccChip<F, BlsG1, MultiEmulationParams, Native, Native>;

#[derive(Clone, Debug)]
struct MulByConstantCircuit<C: CircuitCurve, E> {
    base: C::CryptographicGroup,
    scalar: C::ScalarField,
    expected: C::CryptographicGroup,
    _marker: PhantomData<E>,
}

impl<C, E> Circuit<F> for MulByConstantCircuit<C, E>
where
    C: CircuitCurve,
    E: EccInstructions<F, C>
        + AssignmentInstructions<F, E::Point>
        + AssertionInstructions<F, E::Point>
        + FromScratch<F>,
{
    type Config = <E as FromScratch<F>>::Config;
    type FloorPlanner = SimpleFloorPlanner;
    type Params = ();

    fn without_witnesses(&self) -> Self {
        unreachable!()
    }

    fn configure(meta: &mut ConstraintSystem<F>) -> Self::Config {
        let committed_instance_column = meta.instance_column();
        let instance_column = meta.instance_column();
        E::configure_from_scratch(meta, &[committed_instance_column, instance_column])
    }

    fn synthesize(
        &self,
        config: Self::Config,
        mut layouter: impl Layouter<F>,
    ) -> Result<(), Error> {
        let chip = E::new_from_scratch(&config);
        // A *witnessed* base (the prover is free to witness the identity).
        let base: E::Point = chip.assign(&mut layouter, Value::known(self.base))?;
        let res = chip.mul_by_constant(&mut layouter, self.scalar, &base)?;
        chip.assert_equal_to_fixed(&mut layouter, &res, self.expected)?;
        chip.load_from_scratch(&mut layouter)
    }
}

fn accepted<C, E>(base: C::CryptographicGroup, scalar: C::ScalarField) -> Result<(), String>
where
    C: CircuitCurve,
    E: EccInstructions<F, C>
        + AssignmentInstructions<F, E::Point>
        + AssertionInstructions<F, E::Point>
        + FromScratch<F>,
{
    let circuit = MulByConstantCircuit::<C, E> {
        base,
        scalar,
        expected: base * scalar,
        _marker: PhantomData,
    };
    // In debug builds the library's witness generation hits a `debug_assert!`
    // (field/foreign/util.rs, `compute_u`) as soon as the witness cannot satisfy
    // a gate; in release builds the same situation surfaces as an unsatisfied
    // constraint reported by `MockProver::verify`. We catch both.
    let outcome = std::panic::catch_unwind(std::panic::AssertUnwindSafe(|| {
        let prover = MockProver::run(17, &circuit, vec![vec![], vec![]])
            .map_err(|e| format!("synthesis error: {e:?}"))?;
        prover.verify().map_err(|errs| {
            let n = errs.len();
            format!("{n} verification failure(s), first: {:?}", errs[0])
        })
    }));
    match outcome {
        Ok(res) => res,
        Err(payload) => {
            let msg = payload
                .downcast_ref::<String>()
                .cloned()
                .or_else(|| payload.downcast_ref::<&str>().map(|s| s.to_string()))
                .unwrap_or_else(|| "<non-string panic>".to_string());
            Err(format!("witness generation panicked: {msg}"))
        }
    }
}

fn check_curve<C, E>(name: &str)
where
    C: CircuitCurve,
    E: EccInstructions<F, C>
        + AssignmentInstructions<F, E::Point>
        + AssertionInstructions<F, E::Point>
        + FromScratch<F>,
{
    let id = C::CryptographicGroup::identity();
    let g = C::CryptographicGroup::generator();

    // A scalar with more than 128 bits: r - 1 (one of the scalar classes of C06).
    let big = -C::ScalarField::ONE;
    // A scalar with at most 128 bits.
    let small = C::ScalarField::from(123456u64);

    // Controls: these three must be (and are) accepted.
    accepted::<C, E>(g, big).unwrap_or_else(|e| panic!("[{name}] control (r-1)*G: {e}"));
    accepted::<C, E>(g, small).unwrap_or_else(|e| panic!("[{name}] control 123456*G: {e}"));
    accepted::<C, E>(id, small).unwrap_or_else(|e| panic!("[{name}] control 123456*id: {e}"));

    // The defect: (r-1) * identity = identity is rejected.
    accepted::<C, E>(id, big).unwrap_or_else(|e| {
        panic!(
            "[{name}] DEFECT: mul_by_constant(r-1, identity) = identity is a correct \
             statement with an honest witness, but the circuit is unsatisfiable: {e}"
        )
    });
}

#[test]
fn mul_by_large_constant_accepts_identity_base_secp256k1() {
    check_curve::<K256, SecpChip>("secp256k1");
}

#[test]
fn mul_by_large_constant_accepts_identity_base_bls12_381() {
    check_curve::<BlsG1, BlsChip>("bls12-381");
}
