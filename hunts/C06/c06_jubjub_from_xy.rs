// C06 hunt, defect 2.
//
// Where it belongs: circuits/tests/c06_jubjub_from_xy.rs
// (integration test of the `midnight-circuits` crate, public API only).
//
// How to run:
//   cp _hunt/c06_jubjub_from_xy.rs circuits/tests/
//   CARGO_TARGET_DIR=/tmp/hunt-C06/target cargo test --offline -j 4 \
//       -p midnight-circuits --features testing --test c06_jubjub_from_xy
//
// Defect: `<JubjubExtended as CircuitCurve>::from_xy(x, y)`
// (circuits/src/ecc/curves.rs) is documented as "Constructs a point in the
// curve from its coordinates" and returns `Option<Self>`, i.e. `None` when
// (x, y) is not a point of the curve (this is what the secp256k1, BLS12-381
// and Curve25519 implementations do). The Jubjub implementation decompresses
// `y` together with the *parity* of `x` and then checks `point.get_v() == y`,
// which is trivially true: the value of `x` is never compared.  Hence
//   * for every x' with the same parity as the genuine x (or of -x), and a
//     valid y, `from_xy(x', y)` returns `Some(P)` with `P.x != x'`
//     (the `else { None }` branch can never be taken);
//   * if `y` is not the v-coordinate of any point, it panics ("Failed here")
//     instead of returning `None`.
// `from_xy` is what `AssignedNativePoint::value()`, `EccChip::cond_add`,
// `EccChip::point_from_coordinates` and `map_to_curve` (CPU) use to turn
// coordinates into a point off-circuit.

use ff::Field;
use group::Group;
use midnight_circuits::ecc::curves::CircuitCurve;
use midnight_curves::{Fq as JubjubBase, JubjubExtended, JubjubSubgroup};

fn generator_coordinates() -> (JubjubBase, JubjubBase) {
    let g: JubjubExtended = JubjubSubgroup::generator().into();
    g.coordinates().unwrap()
}

/// Control: genuine coordinates round-trip.
#[test]
fn from_xy_accepts_genuine_coordinates() {
    let (x, y) = generator_coordinates();
    let p = JubjubExtended::from_xy(x, y).expect("genuine coordinates");
    assert_eq!(p.coordinates().unwrap(), (x, y));
}

/// (x + 2, y) is not on the curve: the curve equation determines x^2 from y,
/// and (x + 2)^2 != x^2. `from_xy` must return `None`.
#[test]
fn from_xy_rejects_wrong_x_with_same_parity() {
    let (x, y) = generator_coordinates();
    let wrong_x = x + JubjubBase::from(2u64);

    // Sanity: (wrong_x, y) does not satisfy -x^2 + y^2 = 1 + d x^2 y^2, because the
    // genuine x does and wrong_x^2 != x^2.
    assert_ne!(wrong_x.square(), x.square());

    let res = JubjubExtended::from_xy(wrong_x, y);
    assert!(
        res.is_none(),
        "DEFECT: from_xy(x + 2, y) returned Some(P) for coordinates that are not on the curve; \
         P has coordinates {:?}, which differ from the requested ({:?}, {:?})",
        res.unwrap().coordinates().unwrap(),
        wrong_x,
        y
    );
}

/// Same with an x of the other parity: the result is (-x_true, y), again a point
/// whose x-coordinate is not the requested one.
#[test]
fn from_xy_rejects_wrong_x_with_other_parity() {
    let (x, y) = generator_coordinates();
    let wrong_x = x + JubjubBase::ONE;
    assert_ne!(wrong_x.square(), x.square());

    let res = JubjubExtended::from_xy(wrong_x, y);
    assert!(
        res.is_none(),
        "DEFECT: from_xy(x + 1, y) returned Some(P) with P.x = {:?} != requested x = {:?}",
        res.unwrap().coordinates().unwrap().0,
        wrong_x
    );
}

/// If y is not the v-coordinate of any curve point, the function must return
/// `None` (that is what the `Option` is for); it panics instead.
#[test]
fn from_xy_returns_none_for_invalid_y() {
    let (x, _) = generator_coordinates();

    // Find a y for which (y^2 - 1) / (1 + d y^2) is not a square, i.e. no curve
    // point has this v-coordinate. About half of the field elements qualify; we
    // detect them through the public decompression API of the curve.
    let mut y = JubjubBase::from(2u64);
    let invalid_y = loop {
        let bytes = y.to_bytes_le();
        if bool::from(midnight_curves::JubjubAffine::from_bytes(bytes).is_none()) {
            break y;
        }
        y += JubjubBase::ONE;
    };

    let res = std::panic::catch_unwind(|| JubjubExtended::from_xy(x, invalid_y));
    match res {
        Ok(opt) => assert!(opt.is_none(), "from_xy accepted an invalid y"),
        Err(_) => panic!(
            "DEFECT: from_xy(x, y) panicked for a y that is not the coordinate of any curve \
             point (y = {invalid_y:?}); it is declared to return Option and must return None"
        ),
    }
}
