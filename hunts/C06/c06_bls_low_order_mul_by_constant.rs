// C06 hunt, defect 3 (part 1 of 2: public API, completeness side).
//
// Where it belongs: circuits/tests/c06_bls_low_order_mul_by_constant.rs
// (integration test of the `midnight-circuits` crate, public API only).
//
// How to run:
//   cp _hunt/c06_bls_low_order_mul_by_constant.rs circuits/tests/
//   CARGO_TARGET_DIR=/tmp/hunt-C06/target cargo test --offline -j 4 \
//       -p midnight-circuits --features testing \
//       --test c06_bls_low_order_mul_by_constant
//
// Context: `ForeignEccChip<_, G1Projective, ..>` (the `Bls12381Chip` of
// zk_stdlib, documented there as operating on "the whole BLS curve (whose order
// is a 381-bits integer)") only constrains assigned points to satisfy the curve
// equation: `assign` / `point_from_coordinates` do not check membership in the
// prime-order subgroup.  E(Fp) has cofactor h = 3 * 11^2 * 10177^2 * ..., so
// the prover may witness points of order 3, 11, 33, ...
//
// Defect: `mul_by_constant(n, P)` for n < 2^128 goes through `mul_by_u128`,
// a double-and-add that uses *incomplete* additions.  Their safety argument
// ("all non-identity points have Scalar.ORDER order by assumption") is false
// for such points.  With ord(P) = 11 and n = 21 = 0b10101 the last addition
// is 5P + 16P with 16P = 5P, i.e. an addition of two EQUAL points performed
// with the chord formula:
//   * completeness: the honest witness is rejected (this file);
//   * soundness: the slope is unconstrained (0 * lambda = 0), so the circuit
//     accepts a result that is not 21 * P (see c06_bls_low_order_hooked.rs).

use std::marker::PhantomData;

use ff::Field;
use group::Group;
use midnight_circuits::{
    ecc::{curves::CircuitCurve, foreign::ForeignEccChip},
    field::{
        decomposition::chip::P2RDecompositionChip, foreign::params::MultiEmulationParams,
        NativeChip, NativeGadget,
    },
    instructions::{AssertionInstructions, AssignmentInstructions, EccInstructions},
    testing_utils::FromScratch,
};
use midnight_curves::{Fp as BlsBase, Fq as BlsScalar, G1Projective as BlsG1};
use midnight_proofs::{
    circuit::{Layouter, SimpleFloorPlanner, Value},
    dev::MockProver,
    plonk::{Circuit, ConstraintSystem, Error},
};
use num_bigint::BigUint;

type F = BlsScalar;
type Native = NativeGadget<F, P2RDecompositionChip<F>, NativeChip<F>>;
type BlsChip = ForeignEccChip<F, BlsG1, MultiEmulationParams, Native, Native>;

/// n * p for an arbitrary non-negative integer n (plain double-and-add with the
/// complete formulas of the curves crate; valid on the whole curve E(Fp)).
fn mul_big(p: &BlsG1, n: &BigUint) -> BlsG1 {
    let mut acc = BlsG1::identity();
    for i in (0..n.bits()).rev() {
        acc = acc.double();
        if n.bit(i) {
            acc += p;
        }
    }
    acc
}

/// A point of E(Fp): y^2 = x^3 + 4 of order exactly 11 (hence outside G1).
fn point_of_order_11() -> BlsG1 {
    let h = BigUint::parse_bytes(b"396c8c005555e1568c00aaab0000aaab", 16).unwrap();
    let r = BigUint::parse_bytes(
        b"73eda753299d7d483339d80809a1d80553bda402fffe5bfeffffffff00000001",
        16,
    )
    .unwrap();
    let cofactor_of_11_part = (&h * &r) / BigUint::from(121u32);

    let mut x = BlsBase::ONE;
    loop {
        x += BlsBase::ONE;
        let rhs = x.square() * x + BlsBase::from(4u64);
        let Some(y) = Option::<BlsBase>::from(rhs.sqrt()) else { continue };
        // `from_xy` checks the curve equation only.
        let q = <BlsG1 as CircuitCurve>::from_xy(x, y).expect("on curve");
        let mut t = mul_big(&q, &cofactor_of_11_part); // order divides 121
        if bool::from(t.is_identity()) {
            continue;
        }
        let t11 = mul_big(&t, &BigUint::from(11u32));
        if !bool::from(t11.is_identity()) {
            t = t11; // order was 121, now 11
        }
        assert!(!bool::from(t.is_identity()));
        assert!(bool::from(mul_big(&t, &BigUint::from(11u32)).is_identity()));
        return t;
    }
}

#[derive(Clone, Debug)]
struct MulByConstantCircuit {
    base: BlsG1,
    scalar: u64,
    expected: BlsG1,
    _marker: PhantomData<()>,
}

impl Circuit<F> for MulByConstantCircuit {
    type Config = <BlsChip as FromScratch<F>>::Config;
    type FloorPlanner = SimpleFloorPlanner;
    type Params = ();

    fn without_witnesses(&self) -> Self {
        unreachable!()
    }

    fn configure(meta: &mut ConstraintSystem<F>) -> Self::Config {
        let committed_instance_column = meta.instance_column();
        let instance_column = meta.instance_column();
        BlsChip::configure_from_scratch(meta, &[committed_instance_column, instance_column])
    }

    fn synthesize(
        &self,
        config: Self::Config,
        mut layouter: impl Layouter<F>,
    ) -> Result<(), Error> {
        let chip = BlsChip::new_from_scratch(&config);
        // `assign` enforces the curve equation (and nothing else).
        let base = chip.assign(&mut layouter, Value::known(self.base))?;
        let res = chip.mul_by_constant(&mut layouter, F::from(self.scalar), &base)?;
        chip.assert_equal_to_fixed(&mut layouter, &res, self.expected)?;
        chip.load_from_scratch(&mut layouter)
    }
}

fn accepted(base: BlsG1, scalar: u64) -> Result<(), String> {
    let circuit = MulByConstantCircuit {
        base,
        scalar,
        expected: mul_big(&base, &BigUint::from(scalar)),
        _marker: PhantomData,
    };
    let outcome = std::panic::catch_unwind(std::panic::AssertUnwindSafe(|| {
        let prover = MockProver::run(16, &circuit, vec![vec![], vec![]])
            .map_err(|e| format!("synthesis error: {e:?}"))?;
        prover.verify().map_err(|errs| {
            let n = errs.len();
            format!("{n} verification failure(s), first: {:?}", errs[0])
        })
    }));
    match outcome {
        Ok(res) => res,
        Err(payload) => {
            let msg = payload
                .downcast_ref::<String>()
                .cloned()
                .or_else(|| payload.downcast_ref::<&str>().map(|s| s.to_string()))
                .unwrap_or_else(|| "<non-string panic>".to_string());
            Err(format!("witness generation panicked: {msg}"))
        }
    }
}

#[test]
fn mul_by_constant_on_a_curve_point_of_order_11() {
    let g = BlsG1::generator();
    let p = point_of_order_11();

    // Controls.
    // (a) 21 * G with G in the prime-order subgroup.
    accepted(g, 21).unwrap_or_else(|e| panic!("control 21*G: {e}"));
    // (b) The chip accepts P (it is on the curve) and multiplies it correctly by
    //     constants whose double-and-add chain does not hit the exceptional case:
    //     20 = 0b10100 -> 4P + 16P = 4P + 5P.
    accepted(p, 20).unwrap_or_else(|e| panic!("control 20*P: {e}"));

    // The defect: 21 = 0b10101 -> (P + 4P) + 16P = 5P + 5P, an addition of equal
    // points done with `incomplete_add`.
    accepted(p, 21).unwrap_or_else(|e| {
        panic!(
            "DEFECT: 21 * P = 10 * P is a correct statement about a point that the chip \
             accepts, with the honest witness, but mul_by_constant rejects it: {e}"
        )
    });
}
