// C11 hunt -- defect 3
//
// Belongs in:  curves/tests/c11_noncanonical_encodings.rs   (integration test, public API only)
// Run with:    mkdir -p curves/tests && cp _hunt/c11_noncanonical_encodings.rs curves/tests/ && \
//              CARGO_TARGET_DIR=/tmp/hunt-C11/target cargo test --offline -j 4 -p midnight-curves \
//                  --test c11_noncanonical_encodings
//
// The checked decoders `GroupEncoding::from_bytes` of the secp256k1 and Curve25519 wrappers accept
// byte strings that are NOT the canonical encoding of the point they return, i.e. there are
// b != to_bytes(from_bytes(b)).  C11 demands that checked decoders reject non-canonical encodings
// (the BLS12-381 and Jubjub decoders of the same crate do: see the reference test).
//
//  * K256 / K256Affine: a 33-byte string with the SEC1 tag 0x05 ("compact" form) is accepted and
//    decoded like tag 0x02, so every point with even y has two accepted encodings.
//  * Curve25519 / Curve25519Affine: (a) the sign bit may be set when x = 0 (two encodings of the
//    identity and of the order-2 point), (b) y is not required to be < p = 2^255 - 19, so the 19
//    values y in [p, 2^255) alias y - p.
use group::{Group, GroupEncoding};
use midnight_curves::{
    curve25519::{Curve25519, Curve25519Affine},
    k256::{K256Affine, K256},
    JubjubAffine, JubjubExtended,
};

/// Reference: Jubjub (same Edwards encoding as Curve25519) rejects both kinds of aliases. (passes)
#[test]
fn reference_jubjub_rejects_noncanonical_encodings() {
    // identity = (0, 1) with the sign bit of u set
    let mut b = JubjubExtended::identity().to_bytes();
    b[31] |= 0x80;
    assert!(bool::from(JubjubExtended::from_bytes(&b).is_none()));
    assert!(bool::from(JubjubAffine::from_bytes(b).is_none()));
    // v = q + 1  (q = BLS12-381 scalar modulus), aliasing v = 1
    let mut b = [
        0x01, 0x00, 0x00, 0x00, 0xff, 0xff, 0xff, 0xff, 0xfe, 0x5b, 0xfe, 0xff, 0x02, 0xa4, 0xbd,
        0x53, 0x05, 0xd8, 0xa1, 0x09, 0x08, 0xd8, 0x39, 0x33, 0x48, 0x7d, 0x9d, 0x29, 0x53, 0xa7,
        0xed, 0x73,
    ];
    b[0] += 1;
    assert!(bool::from(JubjubAffine::from_bytes(b).is_none()));
}

#[test]
fn k256_from_bytes_rejects_sec1_compact_tag() {
    let g = K256::generator();
    let canonical = g.to_bytes();
    assert_eq!(canonical.as_ref()[0], 0x02);

    let mut alias = canonical;
    alias.as_mut()[0] = 0x05;

    let decoded = K256::from_bytes(&alias);
    if bool::from(decoded.is_some()) {
        let p = decoded.unwrap();
        assert_eq!(p, g); // it is the very same point ...
        assert_eq!(
            p.to_bytes().as_ref(),
            alias.as_ref(),
            "K256::from_bytes accepted an encoding (tag 0x05) that is not the encoding of the decoded point"
        );
    }
}

#[test]
fn k256_affine_from_bytes_rejects_sec1_compact_tag() {
    let g = K256Affine::generator();
    let mut alias = g.to_bytes();
    alias.as_mut()[0] = 0x05;
    assert!(
        bool::from(K256Affine::from_bytes(&alias).is_none()),
        "K256Affine::from_bytes accepted the non-canonical tag 0x05"
    );
}

#[test]
fn curve25519_from_bytes_rejects_sign_bit_on_zero_x() {
    // identity = (0, 1): canonical encoding 01 00 .. 00
    let canonical = Curve25519::identity().to_bytes();
    let mut alias = canonical;
    alias[31] |= 0x80;
    assert_ne!(alias, canonical);

    let decoded = Curve25519::from_bytes(&alias);
    assert!(
        bool::from(decoded.is_none()),
        "Curve25519::from_bytes accepted the identity with the sign bit set (re-encodes to {:02x?})",
        decoded.unwrap().to_bytes()
    );
}

#[test]
fn curve25519_from_bytes_rejects_unreduced_y() {
    // y = p + 1 = 2^255 - 18, an alias of y = 1 (the identity).
    let mut alias = [0xffu8; 32];
    alias[0] = 0xee;
    alias[31] = 0x7f;

    let decoded = Curve25519::from_bytes(&alias);
    assert!(
        bool::from(decoded.is_none()),
        "Curve25519::from_bytes accepted y = p + 1 (decoded to the identity: {})",
        bool::from(decoded.unwrap().is_identity())
    );
}

#[test]
fn curve25519_affine_from_bytes_rejects_unreduced_y() {
    let mut alias = [0xffu8; 32];
    alias[0] = 0xee;
    alias[31] = 0x7f;
    assert!(
        bool::from(Curve25519Affine::from_bytes(&alias).is_none()),
        "Curve25519Affine::from_bytes accepted y = p + 1"
    );
}
