// C11 hunt -- defect 2
//
// Belongs in:  curves/tests/c11_empty_inputs.rs   (integration test, public API only)
// Run with:    mkdir -p curves/tests && cp _hunt/c11_empty_inputs.rs curves/tests/ && \
//              CARGO_TARGET_DIR=/tmp/hunt-C11/target cargo test --offline -j 4 -p midnight-curves \
//                  --test c11_empty_inputs
//
// Batch normalisation and summation (multi-scalar multiplication) of BLS12-381 points panic on the
// EMPTY input instead of returning the empty result / the identity:
//   * <G1Projective as group::Curve>::batch_normalize(&[], &mut [])   -> index out of bounds
//   * G1Projective::multi_exp(&[], &[])                               -> index out of bounds
//   * G2Projective::multi_exp(&[], &[])                               -> index out of bounds
// (the blst wrappers `p1_affines::from` / `p{1,2}_affines::mult` index element 0 unconditionally).
// The generic `group::Curve::batch_normalize` (used by G2Projective, ...) returns
// normally on empty input, so the G1 entry point disagrees with every other
// implementation of the same operation.
//
// A second, related fault in `multi_exp`: it computes `n = min(points.len(), scalars.len())` --
// i.e. it means to truncate to the shorter input -- but never uses `n` for the points, so
// "more points than scalars" panics ("scalars length mismatch") while "more scalars than points"
// is silently truncated.
use ff::Field;
use group::{Curve, Group};
use midnight_curves::{Fq, G1Affine, G1Projective, G2Affine, G2Projective};

/// Reference: the default implementation used by G2 handles the empty batch. (passes)
#[test]
fn reference_g2_batch_normalize_of_empty_slice_is_fine() {
    let p: Vec<G2Projective> = vec![];
    let mut q: Vec<G2Affine> = vec![];
    G2Projective::batch_normalize(&p, &mut q);
    assert!(q.is_empty());
}

#[test]
fn g1_batch_normalize_of_empty_slice() {
    let p: Vec<G1Projective> = vec![];
    let mut q: Vec<G1Affine> = vec![];
    // Expected: returns, leaving `q` empty.  Observed: panic (index out of bounds).
    G1Projective::batch_normalize(&p, &mut q);
    assert!(q.is_empty());
}

#[test]
fn g1_multi_exp_of_empty_input_is_identity() {
    // The empty sum is the identity.
    let r = G1Projective::multi_exp(&[], &[]);
    assert!(bool::from(r.is_identity()));
}

#[test]
fn g2_multi_exp_of_empty_input_is_identity() {
    let r = G2Projective::multi_exp(&[], &[]);
    assert!(bool::from(r.is_identity()));
}

/// Reference for the truncation semantics: extra scalars are ignored. (passes)
#[test]
fn reference_multi_exp_ignores_extra_scalars() {
    let g = G1Projective::generator();
    let r = G1Projective::multi_exp(&[g, g], &[Fq::ONE, Fq::ONE, Fq::ONE]);
    assert_eq!(r, g.double());
}

#[test]
fn g1_multi_exp_ignores_extra_points() {
    // `multi_exp` computes n = min(#points, #scalars) = 2; the symmetric case must give 2G as well.
    let g = G1Projective::generator();
    let r = G1Projective::multi_exp(&[g, g, g], &[Fq::ONE, Fq::ONE]);
    assert_eq!(r, g.double());
}
