// C11 hunt -- additional confirmation (this one is already alluded to in the statement of C11:
// "the Jacobian-coordinate accessor and constructor of G1 and G2 disagree with the representation
// they wrap"); it is NOT fixed in this tree, so a failing test is recorded for completeness.
//
// Belongs in:  curves/tests/c11_jacobian_coordinates.rs   (integration test, public API only)
// Run with:    mkdir -p curves/tests && cp _hunt/c11_jacobian_coordinates.rs curves/tests/ && \
//              CARGO_TARGET_DIR=/tmp/hunt-C11/target cargo test --offline -j 4 -p midnight-curves \
//                  --test c11_jacobian_coordinates
//
// blst stores G1/G2 points in JACOBIAN coordinates (x = X/Z^2, y = Y/Z^3).  `jacobian_coordinates`
// and `new_jacobian` were copied from the homogeneous-projective `new_curve_impl!` macro and apply a
// "homogeneous <-> Jacobian" conversion to values that are Jacobian already.
use ff::Field;
use group::{prime::PrimeCurveAffine, Group};
use midnight_curves::{bls12_381::Fp2, CurveExt, Fp, G1Affine, G1Projective, G2Affine, G2Projective};

#[test]
fn g1_jacobian_coordinates_are_jacobian() {
    let p = G1Projective::generator().double() + G1Projective::generator(); // Z != 1
    let a = G1Affine::from(p);
    let (x, y, z) = p.jacobian_coordinates();
    assert_ne!(z, Fp::ONE);
    let zi = z.invert().unwrap();
    assert_eq!(x * zi.square(), a.x(), "X / Z^2 must be the affine x");
    assert_eq!(y * zi.square() * zi, a.y(), "Y / Z^3 must be the affine y");
}

#[test]
fn g1_new_jacobian_accepts_jacobian_coordinates() {
    let g = G1Affine::generator();
    let z = Fp::from(7u64);
    let p = G1Projective::new_jacobian(g.x() * z.square(), g.y() * z.square() * z, z);
    assert!(bool::from(p.is_some()), "valid Jacobian coordinates of the generator were rejected");
    assert_eq!(p.unwrap(), G1Projective::generator());
}

#[test]
fn g2_jacobian_coordinates_are_jacobian() {
    let p = G2Projective::generator().double() + G2Projective::generator();
    let a = G2Affine::from(p);
    let (x, y, z) = p.jacobian_coordinates();
    assert_ne!(z, Fp2::ONE);
    let zi = z.invert().unwrap();
    assert_eq!(x * zi.square(), a.x(), "X / Z^2 must be the affine x");
    assert_eq!(y * zi.square() * zi, a.y(), "Y / Z^3 must be the affine y");
}

#[test]
fn g2_new_jacobian_accepts_jacobian_coordinates() {
    let g = G2Affine::generator();
    let z = Fp2::from(7u64);
    let p = G2Projective::new_jacobian(g.x() * z.square(), g.y() * z.square() * z, z);
    assert!(bool::from(p.is_some()), "valid Jacobian coordinates of the generator were rejected");
    assert_eq!(p.unwrap(), G2Projective::generator());
}
