// C11 hunt -- defect 1
//
// Belongs in:  curves/tests/c11_g1_uncompressed_subgroup.rs   (integration test, public API only)
// Run with:    mkdir -p curves/tests && cp _hunt/c11_g1_uncompressed_subgroup.rs curves/tests/ && \
//              CARGO_TARGET_DIR=/tmp/hunt-C11/target cargo test --offline -j 4 -p midnight-curves \
//                  --test c11_g1_uncompressed_subgroup
//
// The *checked* uncompressed / raw decoders of BLS12-381 G1
//     <G1Affine as UncompressedEncoding>::from_uncompressed
//     <G1Affine as SerdeObject>::from_raw_bytes
//     <G1Affine as SerdeObject>::read_raw
// accept a point of E(Fp) that is NOT in the prime-order subgroup G1 (they only test the curve
// equation).  The crate promises the subgroup check:
//   * `from_uncompressed_unchecked` is documented as "not checking if the element is on the curve and
//     not checking if it is in the correct subgroup ... consider using `from_uncompressed()` instead";
//   * `read_raw` fails with "Invalid point. (Either not on curve, or not in subgroup.";
//   * `G1Affine::is_torsion_free`: "This should always return true unless an "unchecked" API was used";
//   * the G2 twins of the three functions and the compressed G1 decoder all do reject such points.
use ff::Field;
use group::{GroupEncoding, UncompressedEncoding};
use midnight_curves::{bls12_381::Fp2, serde::SerdeObject, CurveAffine, Fp, G1Affine, G2Affine};

/// A point on y^2 = x^3 + 4 over Fp which is outside the order-r subgroup.
/// `from_xy` is documented to check the curve equation only, so it is a legitimate way to get one.
fn g1_point_outside_subgroup() -> G1Affine {
    let mut x = Fp::ONE;
    loop {
        let y2 = x.square() * x + Fp::from(4u64);
        if let Some(y) = Option::<Fp>::from(y2.sqrt()) {
            let p = G1Affine::from_xy(x, y).expect("on the curve by construction");
            if !bool::from(p.is_torsion_free()) {
                return p;
            }
        }
        x += Fp::ONE;
    }
}

fn g2_point_outside_subgroup() -> G2Affine {
    let mut x = Fp2::ONE;
    loop {
        let y2 = x.square() * x + <G2Affine as CurveAffine>::b();
        if let Some(y) = Option::<Fp2>::from(y2.sqrt()) {
            let p = G2Affine::from_xy(x, y).expect("on the curve by construction");
            if !bool::from(p.is_torsion_free()) {
                return p;
            }
        }
        x += Fp2::ONE;
    }
}

/// Reference behaviour: the same three decoders of G2 reject a point outside the subgroup, and so
/// does the compressed decoder of G1.  (This test passes.)
#[test]
fn reference_g2_and_compressed_g1_reject_points_outside_the_subgroup() {
    let q = g2_point_outside_subgroup();
    assert!(bool::from(G2Affine::from_uncompressed(&q.to_uncompressed()).is_none()));
    assert!(G2Affine::from_raw_bytes(&q.to_raw_bytes()).is_none());
    assert!(G2Affine::read_raw(&mut &q.to_raw_bytes()[..]).is_err());

    let p = g1_point_outside_subgroup();
    assert!(bool::from(G1Affine::from_bytes(&p.to_bytes()).is_none()));
}

#[test]
fn g1_from_uncompressed_rejects_point_outside_the_subgroup() {
    let p = g1_point_outside_subgroup();
    assert!(bool::from(p.is_on_curve()) && !bool::from(p.is_torsion_free()));
    let decoded = G1Affine::from_uncompressed(&p.to_uncompressed());
    assert!(
        bool::from(decoded.is_none()),
        "checked decoder G1Affine::from_uncompressed returned a point with is_torsion_free() == false"
    );
}

#[test]
fn g1_from_raw_bytes_rejects_point_outside_the_subgroup() {
    let p = g1_point_outside_subgroup();
    assert!(
        G1Affine::from_raw_bytes(&p.to_raw_bytes()).is_none(),
        "checked decoder G1Affine::from_raw_bytes returned a point outside G1"
    );
}

#[test]
fn g1_read_raw_rejects_point_outside_the_subgroup() {
    let p = g1_point_outside_subgroup();
    let bytes = p.to_raw_bytes();
    assert!(
        G1Affine::read_raw(&mut &bytes[..]).is_err(),
        "checked reader G1Affine::read_raw returned Ok for a point outside G1 \
         (its own error text promises: 'Either not on curve, or not in subgroup')"
    );
}
