// C18 hunt, defect 3: a "Jubjub:<hex>" constant encoding a curve point outside the prime-order
// subgroup makes both the off-circuit evaluator and the circuit compiler PANIC.
//
// Belongs in: zkir/tests/c18_jubjub_constant_not_in_subgroup.rs (integration test, public API)
// Run with:
//   CARGO_TARGET_DIR=/tmp/hunt-C18/target cargo test --offline -j 4 -p midnight-zkir \
//       --test c18_jubjub_constant_not_in_subgroup
//
// `parse_jubjub_point` (zkir/src/utils/constants.rs) decodes the 32 bytes with
// `JubjubExtended::from_bytes` (which accepts every curve point) and then calls
// `CircuitCurve::into_subgroup`, which is `CofactorGroup::into_subgroup(..).expect(..)`: it
// panics ("Point should be part of the subgroup") instead of returning `None`.
// An ill-formed program must be rejected with an `Error` value, not a panic.

use std::{collections::HashMap, panic::AssertUnwindSafe};

use midnight_proofs::dev::cost_model::dummy_synthesize_run;
use midnight_zk_stdlib::MidnightCircuit;
use midnight_zkir::{Instruction, Operation::*, ZkirRelation};

// repr_J encoding of the point (u, v) = (0, -1), which has order 2:
// v = q - 1 in little-endian, sign bit of u = 0.
const ORDER_TWO_POINT: &str =
    "Jubjub:00000000fffffffffe5bfeff02a4bd5305d8a10908d83933487d9d2953a7ed73";

fn relation(constant: &str) -> ZkirRelation {
    ZkirRelation::from_instructions(&[Instruction {
        operation: Publish,
        inputs: vec![constant.to_string()],
        outputs: vec![],
    }])
    .unwrap()
}

/// Sanity: a valid constant is accepted by both sides.
#[test]
fn valid_constant_control_case() {
    let rel = relation("Jubjub:0xcb550cd538ea0cc1138480408e6eaab9b36c613f0dd3f7784fdb6eea837b13d7");
    assert!(rel.public_inputs(HashMap::new()).is_ok());
}

/// Sanity: a constant which is not a curve point at all is rejected with an error (no panic).
#[test]
fn non_curve_constant_control_case() {
    let rel = relation("Jubjub:ffffffffffffffffffffffffffffffffffffffffffffffffffffffffffffffff");
    let r = std::panic::catch_unwind(AssertUnwindSafe(|| rel.public_inputs(HashMap::new())));
    assert!(matches!(r, Ok(Err(_))));
}

/// FAILS on the unchanged code (panic instead of Err) -- off-circuit side.
#[test]
fn small_order_constant_offcircuit_must_not_panic() {
    let rel = relation(ORDER_TWO_POINT);
    let r = std::panic::catch_unwind(AssertUnwindSafe(|| rel.public_inputs(HashMap::new())));
    match r {
        Ok(Err(_)) => (), // the expected behaviour: rejected with an error value
        Ok(Ok(pi)) => panic!("a point outside the subgroup was accepted: {pi:?}"),
        Err(_) => panic!("off-circuit evaluation PANICKED on an ill-formed constant"),
    }
}

/// FAILS on the unchanged code (panic instead of Err) -- in-circuit side (compilation).
#[test]
fn small_order_constant_incircuit_must_not_panic() {
    let rel = relation(ORDER_TWO_POINT);
    let r = std::panic::catch_unwind(AssertUnwindSafe(|| {
        let circuit = MidnightCircuit::new(
            &rel,
            midnight_proofs::circuit::Value::unknown(),
            midnight_proofs::circuit::Value::unknown(),
            Some(8),
        );
        dummy_synthesize_run(&circuit).map(|_| ())
    }));
    match r {
        Ok(Err(_)) => (),
        Ok(Ok(())) => panic!("a point outside the subgroup was accepted by the compiler"),
        Err(_) => panic!("circuit compilation PANICKED on an ill-formed constant"),
    }
}
