// C18 hunt, defect 1: ModExp(1) / ModExp(0) disagree between off-circuit evaluation and circuit.
//
// Belongs in: zkir/tests/c18_modexp_small_exponent.rs  (integration test, public API only)
// Run with:
//   CARGO_TARGET_DIR=/tmp/hunt-C18/target cargo test --offline -j 4 -p midnight-zkir \
//       --test c18_modexp_small_exponent
//
// `Operation::ModExp(n)` is documented as "returns x^n % m".  Off-circuit this is
// `x.modpow(n, m)`.  In-circuit, `BigUintGadget::mod_exp` (circuits/src/biguint/biguint_gadget.rs)
//   * for n == 1 returns `x` itself, never reduced modulo `m`;
//   * for n == 0 returns the constant 1, even when m == 1 (where x^0 % 1 == 0).
// Hence for x >= m (n = 1) or m = 1 (n = 0) the off-circuit evaluation succeeds with published
// values P, but the circuit is NOT satisfiable with encode(P) (it is satisfiable with a
// different, wrong public input).

use std::collections::HashMap;

use midnight_proofs::{circuit::Value, dev::MockProver};
use midnight_zk_stdlib::{MidnightCircuit, Relation};
use midnight_zkir::{Instruction, IrType, IrValue, Operation, Operation::*, ZkirRelation};
use num_bigint::BigUint;

fn prog(raw: &[(Operation, Vec<&'static str>, Vec<&'static str>)]) -> Vec<Instruction> {
    raw.iter()
        .map(|(op, i, o)| Instruction {
            operation: *op,
            inputs: i.iter().map(|s| s.to_string()).collect(),
            outputs: o.iter().map(|s| s.to_string()).collect(),
        })
        .collect()
}

fn big(x: u64) -> IrValue {
    IrValue::BigUint(BigUint::from(x))
}

/// Evaluates off-circuit, checks the published value, then checks that the circuit is satisfied
/// by the honest witness together with the public inputs encode(P).
fn check_modexp(n: u64, x: u64, m: u64, expected: u64) {
    let relation = ZkirRelation::from_instructions(&prog(&[
        (Load(IrType::BigUint(8)), vec![], vec!["x", "m"]),
        (ModExp(n), vec!["x", "m"], vec!["r"]),
        (Publish, vec!["r"], vec![]),
    ]))
    .unwrap();
    let witness: HashMap<&'static str, IrValue> =
        HashMap::from_iter([("x", big(x)), ("m", big(m))]);

    // Off-circuit: x^n % m.
    let instance = relation.public_inputs(witness.clone()).expect("off-circuit evaluation");
    assert_eq!(instance.len(), 1);
    assert_eq!(instance[0].0, big(expected), "off-circuit value of {x}^{n} % {m}");

    // In-circuit, with exactly encode(P) as public inputs.
    let pi = <ZkirRelation as Relation>::format_instance(&instance).unwrap();
    let k = MidnightCircuit::from_relation(&relation).min_k();
    let circuit =
        MidnightCircuit::new(&relation, Value::known(instance), Value::known(witness), None);
    let prover = MockProver::run(k, &circuit, vec![vec![], pi]).expect("synthesis");
    assert_eq!(
        prover.verify().map_err(|e| format!("{} failures, first: {:?}", e.len(), e[0])),
        Ok(()),
        "circuit must be satisfied by the honest witness and encode(P) for {x}^{n} % {m}"
    );
}

/// Sanity: a case where everything agrees (guards against a broken harness).
#[test]
fn modexp_control_case_agrees() {
    check_modexp(3, 10, 7, 6); // 1000 % 7 = 6
    check_modexp(1, 5, 7, 5); // x < m, nothing to reduce
}

/// FAILS on the unchanged code: 10^1 % 7 = 3 off-circuit, but the circuit outputs 10.
#[test]
fn modexp_exponent_one_must_reduce() {
    check_modexp(1, 10, 7, 3);
}

/// FAILS on the unchanged code: 10^0 % 1 = 0 off-circuit, but the circuit outputs 1.
#[test]
fn modexp_exponent_zero_modulus_one() {
    check_modexp(0, 10, 1, 0);
}

/// FAILS on the unchanged code: shows what the circuit accepts instead, namely the unreduced
/// value 10 as the published result of `10^1 % 7`.
#[test]
fn modexp_exponent_one_circuit_rejects_unreduced_value() {
    let relation = ZkirRelation::from_instructions(&prog(&[
        (Load(IrType::BigUint(8)), vec![], vec!["x", "m"]),
        (ModExp(1), vec!["x", "m"], vec!["r"]),
        (Publish, vec!["r"], vec![]),
    ]))
    .unwrap();
    let witness: HashMap<&'static str, IrValue> =
        HashMap::from_iter([("x", big(10)), ("m", big(7))]);
    let wrong_instance = vec![(big(10), IrType::BigUint(8))];
    let pi = <ZkirRelation as Relation>::format_instance(&wrong_instance).unwrap();
    let k = MidnightCircuit::from_relation(&relation).min_k();
    let circuit = MidnightCircuit::new(
        &relation,
        Value::known(wrong_instance),
        Value::known(witness),
        None,
    );
    let prover = MockProver::run(k, &circuit, vec![vec![], pi]).expect("synthesis");
    assert!(
        prover.verify().is_err(),
        "the circuit accepts 10 as the value of 10^1 % 7"
    );
}
