// C18 hunt, further observations (beyond the three main defects): panics / disagreements on
// degenerate sizes.  Every test below FAILS on the unchanged code.
//
// Belongs in: zkir/tests/c18_extra_observations.rs (integration test, public API only)
// Run with:
//   CARGO_TARGET_DIR=/tmp/hunt-C18/target cargo test --offline -j 4 -p midnight-zkir \
//       --test c18_extra_observations
#![allow(dead_code)]
use std::{collections::HashMap, panic::AssertUnwindSafe};

use midnight_proofs::{circuit::Value, dev::MockProver};
use midnight_zk_stdlib::{MidnightCircuit, Relation};
use midnight_zkir::{Instruction, IrType, IrValue, Operation, Operation::*, ZkirRelation};
use num_bigint::BigUint;

type F = midnight_curves::Fq;

fn prog(raw: &[(Operation, Vec<&'static str>, Vec<&'static str>)]) -> Vec<Instruction> {
    raw.iter()
        .map(|(op, i, o)| Instruction {
            operation: *op,
            inputs: i.iter().map(|s| s.to_string()).collect(),
            outputs: o.iter().map(|s| s.to_string()).collect(),
        })
        .collect()
}

#[derive(Debug)]
enum InCircuit {
    Satisfied,
    Unsatisfied(String),
    SynthError(String),
    Panic(String),
}

fn panic_msg(e: Box<dyn std::any::Any + Send>) -> String {
    if let Some(s) = e.downcast_ref::<String>() {
        s.clone()
    } else if let Some(s) = e.downcast_ref::<&str>() {
        s.to_string()
    } else {
        "?".into()
    }
}

/// Runs both sides. Returns (offcircuit result as string, incircuit outcome with the off-circuit
/// public inputs (or `fallback_pi` if off-circuit failed)).
fn run(
    raw: &[(Operation, Vec<&'static str>, Vec<&'static str>)],
    witness: HashMap<&'static str, IrValue>,
    fallback_pi: Vec<F>,
) -> (Result<Vec<(IrValue, IrType)>, String>, InCircuit) {
    let relation = ZkirRelation::from_instructions(&prog(raw)).unwrap();

    let off = std::panic::catch_unwind(AssertUnwindSafe(|| relation.public_inputs(witness.clone())));
    let off: Result<Vec<(IrValue, IrType)>, String> = match off {
        Ok(Ok(v)) => Ok(v),
        Ok(Err(e)) => Err(format!("{e:?}")),
        Err(p) => Err(format!("PANIC: {}", panic_msg(p))),
    };

    let (instance, pi) = match &off {
        Ok(v) => (
            v.clone(),
            <ZkirRelation as Relation>::format_instance(v).expect("format_instance"),
        ),
        Err(_) => (vec![], fallback_pi),
    };

    let inc = std::panic::catch_unwind(AssertUnwindSafe(|| {
        let k = MidnightCircuit::from_relation(&relation).min_k();
        let circuit = MidnightCircuit::new(
            &relation,
            Value::known(instance),
            Value::known(witness.clone()),
            None,
        );
        match MockProver::run(k, &circuit, vec![vec![], pi]) {
            Err(e) => InCircuit::SynthError(format!("{e:?}")),
            Ok(p) => match p.verify() {
                Ok(()) => InCircuit::Satisfied,
                Err(errs) => InCircuit::Unsatisfied(format!("{} failures, first: {:?}", errs.len(), errs[0])),
            },
        }
    }));
    let inc = match inc {
        Ok(x) => x,
        Err(p) => InCircuit::Panic(panic_msg(p)),
    };
    (off, inc)
}

fn big(x: u64) -> IrValue {
    IrValue::BigUint(BigUint::from(x))
}


fn no_panic(name: &str, r: &(Result<Vec<(IrValue, IrType)>, String>, InCircuit)) {
    if let Err(e) = &r.0 {
        assert!(!e.starts_with("PANIC"), "{name}: off-circuit side panicked: {e}");
    }
    assert!(!matches!(r.1, InCircuit::Panic(_)), "{name}: in-circuit side panicked: {:?}", r.1);
}

/// `Load(BigUint(0))` with the value 0 (the only inhabitant of [0, 2^0)): off-circuit accepts,
/// `assign_bounded` computes `nb_bits - 1` on a u32 -> "attempt to subtract with overflow".
#[test]
fn load_biguint_of_width_zero_must_not_panic() {
    let r = run(
        &[(Load(IrType::BigUint(0)), vec![], vec!["x"]), (Publish, vec!["x"], vec![])],
        HashMap::from_iter([("x", big(0))]),
        vec![],
    );
    no_panic("load BigUint(0)", &r);
}

/// FromBytes(BigUint) of the empty byte string gives an AssignedBigUint with zero limbs;
/// `BigUintGadget::mul` then computes `0 + 0 - 1` on usize, `sub` calls assign_bounded(.., 0).
#[test]
fn biguint_from_empty_bytes_arithmetic_must_not_panic() {
    for op in [Mul, Sub] {
        let r = run(
            &[
                (Load(IrType::Bytes(0)), vec![], vec!["b"]),
                (FromBytes(IrType::BigUint(8)), vec!["b"], vec!["x"]),
                (op, vec!["x", "x"], vec!["y"]),
                (Publish, vec!["y"], vec![]),
            ],
            HashMap::from_iter([("b", IrValue::Bytes(vec![]))]),
            vec![],
        );
        no_panic("from_bytes(empty) then mul/sub", &r);
    }
}

/// IsEqual / AssertNotEqual on two values of type Bytes(0): the in-circuit code calls
/// `and(&[])`, which unwraps a `None` (native_chip.rs).  Off-circuit the result is `true`.
#[test]
fn is_equal_on_empty_bytes_must_not_panic() {
    let r = run(
        &[
            (Load(IrType::Bytes(0)), vec![], vec!["a", "b"]),
            (IsEqual, vec!["a", "b"], vec!["e"]),
            (Publish, vec!["e"], vec![]),
        ],
        HashMap::from_iter([("a", IrValue::Bytes(vec![])), ("b", IrValue::Bytes(vec![]))]),
        vec![],
    );
    no_panic("is_equal Bytes(0)", &r);
    assert!(matches!(r.1, InCircuit::Satisfied));
}

/// Mul of two BigUint(6100): the limb bound bookkeeping (`bound_of_addition` adds one bit per
/// accumulated product) exceeds 255 bits and `normalize` panics at compile time, although the
/// true value of each column sum is far below the native modulus. 5000 bits works.
#[test]
fn biguint_mul_of_6100_bits_must_not_panic() {
    let r = run(
        &[(Load(IrType::BigUint(6100)), vec![], vec!["x"]), (Mul, vec!["x", "x"], vec!["y"])],
        HashMap::from_iter([("x", big(3))]),
        vec![],
    );
    no_panic("mul BigUint(6100)", &r);
}

/// IntoBytes(0) of the BigUint 0: off-circuit fails ("cannot convert 0 to Bytes(0)", because
/// `BigUint::to_bytes_le` of zero is `[0]`), the circuit is satisfied (and Native 0 -> Bytes(0)
/// succeeds off-circuit).  Evaluation failure must mean an unsatisfiable circuit.
#[test]
fn into_bytes_zero_of_biguint_zero_must_agree() {
    let r = run(
        &[(Load(IrType::BigUint(8)), vec![], vec!["x"]), (IntoBytes(0), vec!["x"], vec!["y"])],
        HashMap::from_iter([("x", big(0))]),
        vec![],
    );
    no_panic("into_bytes(0) BigUint", &r);
    assert_eq!(r.0.is_ok(), matches!(r.1, InCircuit::Satisfied), "{r:?}");
}

/// IntoBytes(33) of a Native (documented as supported "for any n"): off-circuit returns an
/// error, the compiler panics in `assigned_to_le_bytes`.
#[test]
fn into_bytes_33_of_native_must_not_panic() {
    let r = run(
        &[(Load(IrType::Native), vec![], vec!["x"]), (IntoBytes(33), vec!["x"], vec!["y"])],
        HashMap::from_iter([("x", IrValue::Native(F::from(5)))]),
        vec![],
    );
    no_panic("into_bytes(33) Native", &r);
}
