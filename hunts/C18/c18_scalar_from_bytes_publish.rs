// C18 hunt, defect 2: a JubjubScalar built with FromBytes from >= 32 bytes is published
// differently in-circuit and off-circuit.
//
// Belongs in: zkir/tests/c18_scalar_from_bytes_publish.rs  (integration test, public API only)
// Run with:
//   CARGO_TARGET_DIR=/tmp/hunt-C18/target cargo test --offline -j 4 -p midnight-zkir \
//       --test c18_scalar_from_bytes_publish
//
// Off-circuit, `IrValue::from_bytes(JubjubScalar, bytes)` reduces the little-endian integer
// modulo the Jubjub scalar field order, and `AssignedJubjubScalar::as_public_input` always
// encodes that (252-bit) scalar as ONE native field element.
// In-circuit, `EccChip::scalar_from_le_bytes` keeps the raw 8*len bits (no reduction), and
// `constrain_as_public_input` packs these raw bits in chunks of 254 bits.  Therefore:
//   * with 32 bytes (256 bits) the circuit exposes TWO public inputs while off-circuit
//     `public_inputs` / `format_instance` produce ONE  -> an honest proof is rejected by
//     `verify` with `InvalidInstances`, whatever the value;
//   * when the integer is >= the group order, even the first public input differs (raw vs
//     reduced value) -> the circuit is unsatisfiable with encode(P).

use std::collections::HashMap;

use blake2b_simd::State as Blake2b;
use midnight_proofs::{circuit::Value, dev::MockProver, poly::kzg::params::ParamsKZG};
use midnight_zk_stdlib::{MidnightCircuit, Relation};
use midnight_zkir::{Instruction, IrType, IrValue, Operation, Operation::*, ZkirRelation};
use rand_chacha::rand_core::OsRng;

fn prog(raw: &[(Operation, Vec<&'static str>, Vec<&'static str>)]) -> Vec<Instruction> {
    raw.iter()
        .map(|(op, i, o)| Instruction {
            operation: *op,
            inputs: i.iter().map(|s| s.to_string()).collect(),
            outputs: o.iter().map(|s| s.to_string()).collect(),
        })
        .collect()
}

fn relation_for(nb_bytes: usize) -> ZkirRelation {
    ZkirRelation::from_instructions(&prog(&[
        (Load(IrType::Bytes(nb_bytes)), vec![], vec!["b"]),
        (FromBytes(IrType::JubjubScalar), vec!["b"], vec!["s"]),
        (Publish, vec!["s"], vec![]),
    ]))
    .unwrap()
}

fn mock_check(bytes: Vec<u8>) -> Result<(), String> {
    let relation = relation_for(bytes.len());
    let witness: HashMap<&'static str, IrValue> =
        HashMap::from_iter([("b", IrValue::Bytes(bytes))]);
    let instance = relation.public_inputs(witness.clone()).expect("off-circuit evaluation");
    let pi = <ZkirRelation as Relation>::format_instance(&instance).unwrap();
    let k = MidnightCircuit::from_relation(&relation).min_k();
    let circuit =
        MidnightCircuit::new(&relation, Value::known(instance), Value::known(witness), None);
    let prover = MockProver::run(k, &circuit, vec![vec![], pi]).expect("synthesis");
    prover.verify().map_err(|e| format!("{} failures, first: {:?}", e.len(), e[0]))
}

/// Sanity: 31 bytes (value < order, fits one chunk) agrees on both sides.
#[test]
fn scalar_from_31_bytes_control_case_agrees() {
    assert_eq!(mock_check(vec![0xff; 31]), Ok(()));
}

/// FAILS on the unchanged code: the integer 2^256 - 1 is >= the group order; off-circuit
/// evaluation succeeds (reduced scalar), but the circuit is not satisfied with encode(P).
#[test]
fn scalar_from_32_bytes_above_order_publish() {
    assert_eq!(mock_check(vec![0xff; 32]), Ok(()));
}

/// FAILS on the unchanged code: even for the tiny scalar 5 given as 32 bytes, the honest proof
/// is rejected by the verifier, because the circuit has 2 public inputs whereas the off-circuit
/// encoding of the published JubjubScalar has 1.
#[test]
fn scalar_from_32_bytes_small_value_prove_verify() {
    let mut bytes = vec![0u8; 32];
    bytes[0] = 5;
    let relation = relation_for(32);
    let witness: HashMap<&'static str, IrValue> =
        HashMap::from_iter([("b", IrValue::Bytes(bytes))]);

    let k = MidnightCircuit::from_relation(&relation).min_k();
    let srs = ParamsKZG::unsafe_setup(k, OsRng);
    let vk = midnight_zk_stdlib::setup_vk(&srs, &relation);
    let pk = midnight_zk_stdlib::setup_pk(&relation, &vk);

    let instance = relation.public_inputs(witness.clone()).expect("off-circuit evaluation");
    let proof =
        midnight_zk_stdlib::prove::<_, Blake2b>(&srs, &pk, &relation, &instance, witness, OsRng)
            .expect("proof generation");
    let res = midnight_zk_stdlib::verify::<ZkirRelation, Blake2b>(
        &srs.verifier_params(),
        &vk,
        &instance,
        None,
        &proof,
    );
    assert_eq!(res.map_err(|e| format!("{e:?}")), Ok(()), "honest proof must verify");
}
