// C17 hunt -- defect 3 (low severity): `VerifyingKey::bytes_length` and
// `ProvingKey::bytes_length` do not return the length of the serialisation.
//
// Where it belongs : proofs/tests/c17_bytes_length_mismatch.rs
//                    (integration test, public API only)
// How to run       : CARGO_TARGET_DIR=/tmp/hunt-C17/target cargo test --offline -j 4 \
//                      -p midnight-proofs --test c17_bytes_length_mismatch
//
// Documentation: "Return the bytes_length of a VerifyingKey" and "Gets the total
// number of bytes in the serialization of `self`". Expected, for every format:
//     key.to_bytes(format).len() == key.bytes_length(format)
// and the same for a key that was written and read back.
// Observed:
//   * VerifyingKey: bytes_length = len + 4. The header written by `write` is
//     version (1) + k (1) + number of fixed commitments (4) = 6 bytes, the
//     formula uses the constant 10 of the former layout (k: u32, selector flag).
//   * ProvingKey: bytes_length is more than twice the real length: it still
//     counts 12 bytes for l0/l_last/l_active_row and the coefficient and
//     extended-coset forms of the permutation polynomials
//     (`permutation::ProvingKey::bytes_length`), none of which `write` emits any
//     more (they are recomputed by `read`), plus the 4 bytes of the vk.

use ff::Field;
use midnight_curves::{Bls12, Fq as Scalar};
use midnight_proofs::{
    circuit::{Layouter, SimpleFloorPlanner, Value},
    plonk::{
        k_from_circuit, keygen_pk, keygen_vk, Advice, Circuit, Column, ConstraintSystem,
        Constraints, Error, Fixed, Instance, ProvingKey, VerifyingKey,
    },
    poly::{
        kzg::{params::ParamsKZG, KZGCommitmentScheme},
        Rotation,
    },
    utils::SerdeFormat,
};
use rand_chacha::ChaCha20Rng;
use rand_core::SeedableRng;

type Scheme = KZGCommitmentScheme<Bls12>;

#[derive(Clone, Copy)]
struct Cfg {
    a: Column<Advice>,
    b: Column<Advice>,
    c: Column<Advice>,
    q_a: Column<Fixed>,
    q_b: Column<Fixed>,
    q_c: Column<Fixed>,
    q_ab: Column<Fixed>,
    constant: Column<Fixed>,
    #[allow(dead_code)]
    instance: Column<Instance>,
}

/// The "standard PLONK" circuit of `proofs/examples/serialization.rs`.
#[derive(Clone, Default)]
struct StandardPlonk(Scalar);

impl Circuit<Scalar> for StandardPlonk {
    type Config = Cfg;
    type FloorPlanner = SimpleFloorPlanner;
    #[cfg(feature = "circuit-params")]
    type Params = ();

    fn without_witnesses(&self) -> Self {
        Self::default()
    }

    fn configure(meta: &mut ConstraintSystem<Scalar>) -> Cfg {
        let [a, b, c] = [(); 3].map(|_| meta.advice_column());
        let [q_a, q_b, q_c, q_ab, constant] = [(); 5].map(|_| meta.fixed_column());
        let instance = meta.instance_column();
        [a, b, c].iter().for_each(|column| meta.enable_equality(*column));
        meta.create_gate("q_a.a + q_b.b + q_c.c + q_ab.a.b + constant + instance = 0", |meta| {
            let [a, b, c] = [a, b, c].map(|column| meta.query_advice(column, Rotation::cur()));
            let [q_a, q_b, q_c, q_ab, constant] = [q_a, q_b, q_c, q_ab, constant]
                .map(|column| meta.query_fixed(column, Rotation::cur()));
            let instance = meta.query_instance(instance, Rotation::cur());
            Constraints::without_selector(vec![
                q_a * &a + q_b * &b + q_c * c + q_ab * a * b + constant + instance,
            ])
        });
        Cfg {
            a,
            b,
            c,
            q_a,
            q_b,
            q_c,
            q_ab,
            constant,
            instance,
        }
    }

    fn synthesize(&self, config: Cfg, mut layouter: impl Layouter<Scalar>) -> Result<(), Error> {
        layouter.assign_region(
            || "",
            |mut region| {
                region.assign_advice(|| "", config.a, 0, || Value::known(self.0))?;
                region.assign_fixed(|| "", config.q_a, 0, || Value::known(-Scalar::ONE))?;
                region.assign_advice(|| "", config.a, 1, || Value::known(-Scalar::from(5u64)))?;
                for (idx, column) in (1..).zip([
                    config.q_a,
                    config.q_b,
                    config.q_c,
                    config.q_ab,
                    config.constant,
                ]) {
                    region.assign_fixed(
                        || "",
                        column,
                        1,
                        || Value::known(Scalar::from(idx as u64)),
                    )?;
                }
                let a = region.assign_advice(|| "", config.a, 2, || Value::known(Scalar::ONE))?;
                a.copy_advice(|| "", &mut region, config.b, 3)?;
                a.copy_advice(|| "", &mut region, config.c, 4)?;
                Ok(())
            },
        )
    }
}

const FORMATS: [SerdeFormat; 3] = [
    SerdeFormat::Processed,
    SerdeFormat::RawBytes,
    SerdeFormat::RawBytesUnchecked,
];

fn keys() -> (VerifyingKey<Scalar, Scheme>, ProvingKey<Scalar, Scheme>) {
    let circuit = StandardPlonk(Scalar::from(7));
    let k = k_from_circuit(&circuit);
    let params = ParamsKZG::<Bls12>::unsafe_setup(k, ChaCha20Rng::seed_from_u64(17));
    let vk = keygen_vk::<_, Scheme, _>(&params, &circuit).unwrap();
    let pk = keygen_pk(vk.clone(), &circuit).unwrap();
    (vk, pk)
}

/// FAILS on the unchanged code (off by 4).
#[test]
fn vk_bytes_length_is_the_length_of_the_serialisation() {
    let (vk, _) = keys();
    for format in FORMATS {
        let bytes = vk.to_bytes(format);
        // the serialisation itself round-trips...
        let vk2 = VerifyingKey::<Scalar, Scheme>::from_bytes::<StandardPlonk>(
            &bytes,
            format,
            #[cfg(feature = "circuit-params")]
            (),
        )
        .unwrap();
        assert_eq!(vk2.to_bytes(format), bytes);
        // ...but its announced length is wrong.
        assert_eq!(bytes.len(), vk.bytes_length(format), "vk, {format:?}");
        assert_eq!(bytes.len(), vk2.bytes_length(format), "reloaded vk, {format:?}");
    }
}

/// FAILS on the unchanged code (announces more than twice the real size).
#[test]
fn pk_bytes_length_is_the_length_of_the_serialisation() {
    let (_, pk) = keys();
    for format in FORMATS {
        let bytes = pk.to_bytes(format);
        let pk2 = ProvingKey::<Scalar, Scheme>::from_bytes::<StandardPlonk>(
            &bytes,
            format,
            #[cfg(feature = "circuit-params")]
            (),
        )
        .unwrap();
        assert_eq!(pk2.to_bytes(format), bytes);
        assert_eq!(bytes.len(), pk.bytes_length(format), "pk, {format:?}");
        assert_eq!(bytes.len(), pk2.bytes_length(format), "reloaded pk, {format:?}");
    }
}
