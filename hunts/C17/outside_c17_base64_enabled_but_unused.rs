// NOT a C17 violation -- by-catch found while exercising the C17 round trips on
// standard-library relations; recorded here so that it is not lost.
//
// A relation that ENABLES the base64 chip in `Relation::used_chips` but does not
// use it cannot be proven: `midnight_zk_stdlib::prove` returns
// `Err(ConstraintSystemFailure)` for a correct witness (keygen succeeds, and the
// keys round-trip fine). `Relation::used_chips` documents that a chip "can also
// be enabled even if it is not used (possibly to share the same architecture
// with other circuits)", and zk_stdlib/tests/serialization.rs uses exactly such
// an architecture (ARCHITECTURES[3], base64: true, DummyCircuit) - but only
// serialises the keys, it never proves.
//
// Cause: `Base64Chip::configure` (circuits/src/parsing/base64_chip.rs) maps a
// disabled row to the lookup input (two_entry_default(), 0) with a NON-ZERO
// default, while `MidnightCircuit::synthesize` (zk_stdlib/src/lib.rs) skips
// `b64_chip.load` when `used_base64` is false, so the table columns are all zero
// and do not contain the default entry. Every other chip maps a disabled row to
// the all-zero tuple and is unaffected.
//
// Where it belongs : zk_stdlib/tests/outside_c17_base64_enabled_but_unused.rs
// How to run       : CARGO_TARGET_DIR=/tmp/hunt-C17/target cargo test --offline -j 4 \
//                      -p midnight-zk-stdlib --test outside_c17_base64_enabled_but_unused

use midnight_circuits::instructions::{
    ArithInstructions, AssertionInstructions, AssignmentInstructions, PublicInputInstructions,
};
use midnight_proofs::{
    circuit::{Layouter, Value},
    plonk::Error,
    poly::kzg::params::ParamsKZG,
};
use midnight_zk_stdlib::{Relation, ZkStdLib, ZkStdLibArch};
use rand::{rngs::OsRng, SeedableRng};
use rand_chacha::ChaCha20Rng;

type F = midnight_curves::Fq;

/// The DummyCircuit of zk_stdlib/tests/serialization.rs.
#[derive(Clone)]
struct DummyCircuit {
    architecture: ZkStdLibArch,
}

impl Relation for DummyCircuit {
    type Instance = F;
    type Witness = F;

    fn format_instance(x: &Self::Instance) -> Result<Vec<F>, Error> {
        Ok(vec![*x])
    }

    fn circuit(
        &self,
        std_lib: &ZkStdLib,
        layouter: &mut impl Layouter<F>,
        instance: Value<Self::Instance>,
        witness: Value<Self::Witness>,
    ) -> Result<(), Error> {
        let instance = std_lib.assign_as_public_input(layouter, instance)?;
        let witness = std_lib.assign(layouter, witness)?;
        let x = std_lib.mul(layouter, &witness, &witness, None)?;
        std_lib.assert_equal(layouter, &instance, &x)
    }

    fn used_chips(&self) -> ZkStdLibArch {
        self.architecture
    }

    fn write_relation<W: std::io::Write>(&self, writer: &mut W) -> std::io::Result<()> {
        self.architecture.write(writer)
    }

    fn read_relation<R: std::io::Read>(reader: &mut R) -> std::io::Result<Self> {
        ZkStdLibArch::read(reader).map(|architecture| DummyCircuit { architecture })
    }
}

fn prove_and_verify(architecture: ZkStdLibArch) -> Result<(), Error> {
    let relation = DummyCircuit { architecture };
    let mut srs = ParamsKZG::unsafe_setup(10, ChaCha20Rng::seed_from_u64(3));
    midnight_zk_stdlib::downsize_srs_for_relation(&mut srs, &relation);
    let vk = midnight_zk_stdlib::setup_vk(&srs, &relation);
    let pk = midnight_zk_stdlib::setup_pk(&relation, &vk);
    let (witness, instance) = (F::from(5), F::from(25));
    let proof = midnight_zk_stdlib::prove::<_, blake2b_simd::State>(
        &srs, &pk, &relation, &instance, witness, OsRng,
    )?;
    midnight_zk_stdlib::verify::<DummyCircuit, blake2b_simd::State>(
        &srs.verifier_params(),
        &vk,
        &instance,
        None,
        &proof,
    )
}

/// Control: every other chip may be enabled without being used.
#[test]
fn control_other_chips_enabled_but_unused() {
    let all_but_base64 = ZkStdLibArch {
        jubjub: true,
        poseidon: true,
        sha2_256: true,
        sha2_512: true,
        sha3_256: true,
        keccak_256: true,
        blake2b: true,
        secp256k1: true,
        bls12_381: true,
        base64: false,
        automaton: true,
        nr_pow2range_cols: 4,
    };
    assert!(prove_and_verify(ZkStdLibArch::default()).is_ok());
    assert!(prove_and_verify(all_but_base64).is_ok());
}

/// FAILS on the unchanged code with Err(ConstraintSystemFailure).
#[test]
fn base64_enabled_but_unused_is_provable() {
    let arch = ZkStdLibArch {
        base64: true,
        ..ZkStdLibArch::default()
    };
    assert_eq!(prove_and_verify(arch).map_err(|e| format!("{e:?}")), Ok(()));
}
