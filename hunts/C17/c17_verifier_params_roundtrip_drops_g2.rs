// C17 hunt -- defect 2: `ParamsVerifierKZG::write` / `ParamsVerifierKZG::read` do not
// round-trip the verifier parameters: `write` only emits `s_g2`, and `read`
// rebuilds the other pairing operand from the *hard-coded* G2 generator instead
// of from the `g2` element of the parameter set it was derived from.
//
// Where it belongs : proofs/tests/c17_verifier_params_roundtrip_drops_g2.rs
//                    (integration test, public API only)
// How to run       : CARGO_TARGET_DIR=/tmp/hunt-C17/target cargo test --offline -j 4 \
//                      -p midnight-proofs --test c17_verifier_params_roundtrip_drops_g2
//
// `ParamsKZG` carries an explicit `g2` (argument of the public constructor
// `ParamsKZG::from_parts`, getter `g2()`, serialised by `write_custom`), and
// `ParamsKZG::verifier_params()` builds the verifier parameters from it
// (`n_g2_prepared = -self.g2`). For a parameter set whose `g2` is not the
// canonical generator (g2 = [h]G2, s_g2 = [s*h]G2 - a perfectly valid KZG
// parameter set, every pairing equation is homogeneous in h):
//   * proofs verify with `params.verifier_params()`                       (ok)
//   * proofs verify after a full `write_custom`/`read_custom` round trip  (ok)
//   * proofs are REJECTED after `ParamsVerifierKZG::write` -> `read`      (bug)
// Expected: the reloaded verifier parameters accept exactly the same proofs as
// the original ones (or `from_parts` refuses a non-canonical g2).

use blake2b_simd::State;
use ff::Field;
use group::Group;
use midnight_curves::{Bls12, Fq as Scalar, G1Projective, G2Projective};
use midnight_proofs::{
    circuit::{Layouter, SimpleFloorPlanner, Value},
    plonk::{
        create_proof, k_from_circuit, keygen_pk, keygen_vk, prepare, Advice, Circuit, Column,
        ConstraintSystem, Constraints, Error, Fixed, Instance, VerifyingKey,
    },
    poly::{
        commitment::Guard,
        kzg::{
            params::{ParamsKZG, ParamsVerifierKZG},
            KZGCommitmentScheme,
        },
        Rotation,
    },
    transcript::{CircuitTranscript, Transcript},
    utils::SerdeFormat,
};
use rand_chacha::ChaCha20Rng;
use rand_core::{OsRng, SeedableRng};

type Scheme = KZGCommitmentScheme<Bls12>;

#[derive(Clone, Copy)]
struct Cfg {
    a: Column<Advice>,
    b: Column<Advice>,
    c: Column<Advice>,
    q_a: Column<Fixed>,
    q_b: Column<Fixed>,
    q_c: Column<Fixed>,
    q_ab: Column<Fixed>,
    constant: Column<Fixed>,
    #[allow(dead_code)]
    instance: Column<Instance>,
}

/// The "standard PLONK" circuit of `proofs/examples/serialization.rs`.
#[derive(Clone, Default)]
struct StandardPlonk(Scalar);

impl Circuit<Scalar> for StandardPlonk {
    type Config = Cfg;
    type FloorPlanner = SimpleFloorPlanner;
    #[cfg(feature = "circuit-params")]
    type Params = ();

    fn without_witnesses(&self) -> Self {
        Self::default()
    }

    fn configure(meta: &mut ConstraintSystem<Scalar>) -> Cfg {
        let [a, b, c] = [(); 3].map(|_| meta.advice_column());
        let [q_a, q_b, q_c, q_ab, constant] = [(); 5].map(|_| meta.fixed_column());
        let instance = meta.instance_column();
        [a, b, c].iter().for_each(|column| meta.enable_equality(*column));
        meta.create_gate("q_a.a + q_b.b + q_c.c + q_ab.a.b + constant + instance = 0", |meta| {
            let [a, b, c] = [a, b, c].map(|column| meta.query_advice(column, Rotation::cur()));
            let [q_a, q_b, q_c, q_ab, constant] = [q_a, q_b, q_c, q_ab, constant]
                .map(|column| meta.query_fixed(column, Rotation::cur()));
            let instance = meta.query_instance(instance, Rotation::cur());
            Constraints::without_selector(vec![
                q_a * &a + q_b * &b + q_c * c + q_ab * a * b + constant + instance,
            ])
        });
        Cfg {
            a,
            b,
            c,
            q_a,
            q_b,
            q_c,
            q_ab,
            constant,
            instance,
        }
    }

    fn synthesize(&self, config: Cfg, mut layouter: impl Layouter<Scalar>) -> Result<(), Error> {
        layouter.assign_region(
            || "",
            |mut region| {
                region.assign_advice(|| "", config.a, 0, || Value::known(self.0))?;
                region.assign_fixed(|| "", config.q_a, 0, || Value::known(-Scalar::ONE))?;
                region.assign_advice(|| "", config.a, 1, || Value::known(-Scalar::from(5u64)))?;
                for (idx, column) in (1..).zip([
                    config.q_a,
                    config.q_b,
                    config.q_c,
                    config.q_ab,
                    config.constant,
                ]) {
                    region.assign_fixed(
                        || "",
                        column,
                        1,
                        || Value::known(Scalar::from(idx as u64)),
                    )?;
                }
                let a = region.assign_advice(|| "", config.a, 2, || Value::known(Scalar::ONE))?;
                a.copy_advice(|| "", &mut region, config.b, 3)?;
                a.copy_advice(|| "", &mut region, config.c, 4)?;
                Ok(())
            },
        )
    }
}

fn verifies(
    vp: &ParamsVerifierKZG<Bls12>,
    vk: &VerifyingKey<Scalar, Scheme>,
    x: Scalar,
    proof: &[u8],
) -> bool {
    let mut transcript = CircuitTranscript::<State>::init_from_bytes(proof);
    let Ok(guard) = prepare::<Scalar, Scheme, _>(
        vk,
        #[cfg(feature = "committed-instances")]
        &[&[]],
        &[&[&[x]]],
        &mut transcript,
    ) else {
        return false;
    };
    transcript.assert_empty().is_ok() && guard.verify(vp).is_ok()
}

/// KZG parameters for secret `s` whose G2 part is expressed w.r.t. the base
/// point `g2 = [h] G2` (h = 1 gives exactly what `unsafe_setup` produces).
fn params_with_g2_base(k: u32, s: Scalar, h: Scalar) -> ParamsKZG<Bls12> {
    let mut g = Vec::with_capacity(1 << k);
    let mut cur = G1Projective::generator();
    for _ in 0..(1u64 << k) {
        g.push(cur);
        cur *= s;
    }
    let g2 = G2Projective::generator() * h;
    ParamsKZG::<Bls12>::from_parts(k, g, None, g2, g2 * s)
}

fn run(h: Scalar) {
    let x = Scalar::from(7);
    let circuit = StandardPlonk(x);
    let k = k_from_circuit(&circuit);
    let s = Scalar::random(ChaCha20Rng::seed_from_u64(5));
    let params = params_with_g2_base(k, s, h);

    let vk = keygen_vk::<_, Scheme, _>(&params, &circuit).unwrap();
    let pk = keygen_pk(vk.clone(), &circuit).unwrap();
    let proof = {
        let mut transcript = CircuitTranscript::<State>::init();
        create_proof::<Scalar, Scheme, _, _>(
            &params,
            &pk,
            &[circuit.clone()],
            #[cfg(feature = "committed-instances")]
            0,
            &[&[&[x]]],
            OsRng,
            &mut transcript,
        )
        .unwrap();
        transcript.finalize()
    };

    // 1. The original verifier parameters accept the proof (and reject a wrong instance).
    let vp = params.verifier_params();
    assert!(verifies(&vp, &vk, x, &proof), "original verifier params must accept");
    assert!(!verifies(&vp, &vk, x + Scalar::ONE, &proof));

    for format in [
        SerdeFormat::Processed,
        SerdeFormat::RawBytes,
        SerdeFormat::RawBytesUnchecked,
    ] {
        // 2. A round trip of the *full* parameter set keeps accepting it.
        let mut bytes = vec![];
        params.write_custom(&mut bytes, format).unwrap();
        let params2 = ParamsKZG::<Bls12>::read_custom(&mut &bytes[..], format).unwrap();
        assert!(verifies(&params2.verifier_params(), &vk, x, &proof));

        // 3. A round trip of the verifier parameters must accept it as well.
        let mut bytes = vec![];
        vp.write(&mut bytes, format).unwrap();
        let vp2 = ParamsVerifierKZG::<Bls12>::read(&mut &bytes[..], format).unwrap();
        assert!(
            verifies(&vp2, &vk, x, &proof),
            "verifier parameters reloaded with {format:?} reject a proof that the original \
             verifier parameters accept"
        );
    }
}

/// Control: with the canonical generator everything round-trips.
#[test]
fn control_canonical_g2() {
    run(Scalar::ONE);
}

/// FAILS on the unchanged code.
#[test]
fn verifier_params_roundtrip_accepts_the_same_proofs() {
    run(Scalar::from(3));
}
