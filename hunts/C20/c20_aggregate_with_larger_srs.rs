// C20 hunt -- defect 2: `LightAggregator::aggregate_proofs` silently produces an aggregated proof
// that `LightAggregator::verify` REJECTS when it is given an SRS that is larger than the
// aggregator circuit, although its documentation explicitly allows it:
//
//     /// The provided srs must be the one used for the generation of all proofs.
//     /// (Not necessarily in size, but must share the same toxic waste.)
//
// All inner proofs are valid, `aggregate_proofs` returns `Ok(())`, and yet the aggregated proof
// is refused: the "if" direction of C20 (valid inner proofs => the aggregated proof verifies) is
// broken for a documented-as-legal input, and no error is reported at proving time.
//
// Root cause: `aggregate_proofs` forwards `srs` as is to `commit_to_instances` and `create_proof`.
// `KZGCommitmentScheme::commit_lagrange` only asserts `params.g_lagrange.len() >= poly.len()` and
// then uses the first 2^k_agg Lagrange commitments of the *larger* domain, which are not the
// Lagrange basis of the aggregator's domain: the committed-instance commitment sigma, every advice
// commitment of the aggregator proof and the IPA statement (which is checked against the
// Lagrange commitments stored by `init`) are all wrong.
//
// WHERE IT BELONGS
//   `LightPoseidonFS` (needed to create inner proofs) is private to the crate, so this is a
//   `#[cfg(test)]` child module of `aggregator/src/light_aggregator.rs`. Hook it by appending
//   these three lines at the very end of `aggregator/src/light_aggregator.rs`:
//
//       #[cfg(test)]
//       #[path = "../../_hunt/c20_aggregate_with_larger_srs.rs"]
//       mod hunt_c20_aggregate_with_larger_srs;
//
// HOW TO RUN
//   CARGO_TARGET_DIR=/tmp/hunt-C20/target cargo test --offline -j 4 -p midnight-aggregator \
//       hunt_c20_aggregate_with_larger_srs -- --nocapture

use blake2b_simd::State as Blake2bState;
use ff::Field;
use midnight_circuits::{
    hash::poseidon::PoseidonChip,
    instructions::{hash::HashCPU, AssignmentInstructions},
};
use midnight_zk_stdlib::{Relation, ZkStdLib, ZkStdLibArch};
use rand::SeedableRng;
use rand_chacha::ChaCha8Rng;

use super::*;

/// Same inner relation as the crate's own round-trip test.
#[derive(Clone, Default)]
struct InnerCircuit;

impl Relation for InnerCircuit {
    type Instance = [F; 2];
    type Witness = [F; 2];

    fn format_instance(instance: &Self::Instance) -> Result<Vec<F>, Error> {
        Ok(instance.to_vec())
    }

    fn circuit(
        &self,
        std_lib: &ZkStdLib,
        layouter: &mut impl Layouter<F>,
        _instance: Value<Self::Instance>,
        witness: Value<Self::Witness>,
    ) -> Result<(), Error> {
        let assigned_message = std_lib.assign_many(layouter, &witness.transpose_array())?;
        let output1 = std_lib.poseidon(layouter, &assigned_message)?;
        let output2 = std_lib.poseidon(layouter, &assigned_message[1..])?;
        std_lib.constrain_as_public_input(layouter, &output1)?;
        std_lib.constrain_as_public_input(layouter, &output2)
    }

    fn used_chips(&self) -> ZkStdLibArch {
        ZkStdLibArch {
            jubjub: true,
            poseidon: true,
            sha2_256: true,
            nr_pow2range_cols: 4,
            ..ZkStdLibArch::default()
        }
    }

    fn write_relation<W: std::io::Write>(&self, _writer: &mut W) -> std::io::Result<()> {
        Ok(())
    }

    fn read_relation<R: std::io::Read>(_reader: &mut R) -> std::io::Result<Self> {
        Ok(InnerCircuit)
    }
}

#[test]
fn aggregated_proof_made_with_a_larger_srs_verifies() {
    const NB_PROOFS: usize = 2;
    let mut rng = ChaCha8Rng::from_seed([21u8; 32]);

    // One trusted setup; `full_srs` keeps its original size, `srs` is downsized by `init`.
    let full_srs = ParamsKZG::unsafe_setup(15, &mut rng);
    let mut srs = full_srs.clone();

    let mut inner_srs = full_srs.clone();
    midnight_zk_stdlib::downsize_srs_for_relation(&mut inner_srs, &InnerCircuit);
    let inner_vk = midnight_zk_stdlib::setup_vk(&inner_srs, &InnerCircuit);
    let inner_pk = midnight_zk_stdlib::setup_pk(&InnerCircuit, &inner_vk);

    let aggregator = LightAggregator::<NB_PROOFS>::init(&mut srs, inner_vk.vk())
        .expect("Failed to init the aggregator");

    let witnesses: [_; NB_PROOFS] =
        core::array::from_fn(|_| [F::random(&mut rng), F::random(&mut rng)]);
    let instances: [Vec<F>; NB_PROOFS] = witnesses.map(|w| {
        vec![
            <PoseidonChip<F> as HashCPU<F, F>>::hash(&w),
            <PoseidonChip<F> as HashCPU<F, F>>::hash(&w[1..]),
        ]
    });
    let proofs: [Vec<u8>; NB_PROOFS] = core::array::from_fn(|i| {
        midnight_zk_stdlib::prove::<InnerCircuit, LightPoseidonFS<F>>(
            &inner_srs,
            &inner_pk,
            &InnerCircuit,
            &[instances[i][0], instances[i][1]],
            witnesses[i],
            &mut rng,
        )
        .expect("Problem creating an inner proof")
    });

    // Control: with the SRS downsized by `init`, the round trip works.
    {
        let mut transcript = CircuitTranscript::<Blake2bState>::init();
        aggregator
            .aggregate_proofs(&srs, &instances, &proofs, &mut rng, &mut transcript)
            .unwrap();
        let meta_proof = transcript.finalize();
        let mut transcript = CircuitTranscript::<Blake2bState>::init_from_bytes(&meta_proof);
        aggregator
            .verify(&srs.verifier_params(), &instances, &mut transcript)
            .expect("control round trip");
    }

    // Same toxic waste, larger size: allowed by the documentation of `aggregate_proofs`.
    let mut transcript = CircuitTranscript::<Blake2bState>::init();
    let res = aggregator.aggregate_proofs(&full_srs, &instances, &proofs, &mut rng, &mut transcript);
    println!("aggregate_proofs(larger srs) = {res:?}");
    res.expect("all inner proofs are valid and the SRS shares the toxic waste");
    let meta_proof = transcript.finalize();

    let mut transcript = CircuitTranscript::<Blake2bState>::init_from_bytes(&meta_proof);
    let res = aggregator.verify(&srs.verifier_params(), &instances, &mut transcript);
    println!("verify(aggregated proof made with the larger srs) = {res:?}");
    assert!(
        res.is_ok(),
        "aggregate_proofs returned Ok(()) on valid inner proofs, but the aggregated proof is \
         rejected: {res:?}"
    );
}
