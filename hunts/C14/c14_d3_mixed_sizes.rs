// C14 hunt, defect 3: `multi_open` mishandles query sets whose polynomials do not all have the
// same number of coefficients (e.g. one of degree < 2^2 and one of degree < 2^3 under the same
// parameters): the `Polynomial + Polynomial` used by `inner_product` silently drops the high
// coefficients of the longer right-hand side (-> an invalid proof for true evaluations), or
// panics with a slice-index error when the left-hand side is the longer one.
//
// Where it belongs: copy to  proofs/tests/c14_d3_mixed_sizes.rs
// How to run:
//   CARGO_TARGET_DIR=/tmp/hunt-C14/target cargo test --offline -j 4 -p midnight-proofs \
//       --test c14_d3_mixed_sizes
//
// Uses only the public API of midnight-proofs.

use blake2b_simd::State as Blake2bState;
use ff::Field;
use midnight_curves::{Bls12, Fq, G1Projective};
use midnight_proofs::{
    poly::{
        commitment::{Guard, PolynomialCommitmentScheme},
        kzg::{params::ParamsKZG, KZGCommitmentScheme},
        Coeff, CommitmentLabel, Polynomial, ProverQuery, VerifierQuery,
    },
    transcript::{CircuitTranscript, Transcript},
    utils::arithmetic::eval_polynomial,
};
use rand_chacha::ChaCha8Rng;
use rand_core::SeedableRng;

type Scheme = KZGCommitmentScheme<Bls12>;
type T = CircuitTranscript<Blake2bState>;
type Poly = Polynomial<Fq, Coeff>;

fn roundtrip(params: &ParamsKZG<Bls12>, polys: &[&Poly], points: &[Fq], queries: &[(usize, usize)]) -> bool {
    let coms: Vec<G1Projective> = polys.iter().map(|p| Scheme::commit(params, p)).collect();

    let mut tr = T::init();
    let pq: Vec<_> = queries.iter().map(|&(p, x)| ProverQuery::new(points[x], polys[p])).collect();
    Scheme::multi_open(params, &pq, &mut tr).expect("multi_open must succeed on a valid query set");
    let proof = tr.finalize();

    let mut tr = T::init_from_bytes(&proof);
    let vq: Vec<_> = queries
        .iter()
        .map(|&(p, x)| {
            VerifierQuery::<Fq, Scheme>::new(
                points[x],
                CommitmentLabel::NoLabel,
                &coms[p],
                eval_polynomial(polys[p], points[x]),
            )
        })
        .collect();
    let guard = Scheme::multi_prepare(&vq, &mut tr).expect("multi_prepare");
    guard.verify(&params.verifier_params()).is_ok()
}

fn setup() -> (ParamsKZG<Bls12>, Poly, Poly, Vec<Fq>) {
    let mut rng = ChaCha8Rng::seed_from_u64(0xC14);
    let params = ParamsKZG::<Bls12>::unsafe_setup(5, &mut rng);
    let mut small = Poly::init(1 << 2);
    small.iter_mut().for_each(|c| *c = Fq::random(&mut rng));
    let mut big = Poly::init(1 << 5);
    big.iter_mut().for_each(|c| *c = Fq::random(&mut rng));
    let points = (0..2).map(|_| Fq::random(&mut rng)).collect();
    (params, small, big, points)
}

/// Control: each size on its own works under the (larger) parameters.
#[test]
fn control_each_size_alone() {
    let (params, small, big, points) = setup();
    assert!(roundtrip(&params, &[&small], &points, &[(0, 0), (0, 1)]));
    assert!(roundtrip(&params, &[&big], &points, &[(0, 0), (0, 1)]));
}

/// degree<4 polynomial first, degree<32 polynomial second, same point.
/// Unchanged code: the honest proof is REJECTED (high coefficients of `big` are dropped when it
/// is added to the accumulator that has the length of `small`).
#[test]
fn small_then_big_same_point() {
    let (params, small, big, points) = setup();
    assert!(roundtrip(&params, &[&small, &big], &points, &[(0, 0), (1, 0)]));
}

/// Same two polynomials in distinct point sets (the truncation then happens when the q-polys
/// are combined with powers of x4).
#[test]
fn small_then_big_distinct_points() {
    let (params, small, big, points) = setup();
    assert!(roundtrip(&params, &[&small, &big], &points, &[(0, 0), (1, 1)]));
}

/// degree<32 polynomial first, degree<4 polynomial second.
/// Unchanged code (with more than a few rayon threads): PANIC "range start index .. out of range
/// for slice of length 4" in `impl Add for Polynomial` (poly/mod.rs).
#[test]
fn big_then_small_same_point() {
    let (params, small, big, points) = setup();
    assert!(roundtrip(&params, &[&big, &small], &points, &[(0, 0), (1, 0)]));
}
