// Exploration harness for property C14 (scratch, not a finding by itself).
#![allow(clippy::type_complexity)]

use blake2b_simd::State as Blake2bState;
use ff::Field;
use midnight_curves::{Bls12, Fq, G1Projective};
use midnight_proofs::{
    poly::{
        commitment::{Guard, PolynomialCommitmentScheme},
        kzg::{
            params::{ParamsKZG, ParamsVerifierKZG},
            KZGCommitmentScheme,
        },
        Coeff, CommitmentLabel, Polynomial, ProverQuery, VerifierQuery,
    },
    transcript::{CircuitTranscript, Transcript},
    utils::arithmetic::eval_polynomial,
};
use rand_chacha::ChaCha8Rng;
use rand_core::{RngCore, SeedableRng};

type Scheme = KZGCommitmentScheme<Bls12>;
type T = CircuitTranscript<Blake2bState>;
type Poly = Polynomial<Fq, Coeff>;

fn poly_from(coeffs: &[Fq]) -> Poly {
    let mut p = Poly::init(coeffs.len());
    for (a, b) in p.iter_mut().zip(coeffs) {
        *a = *b;
    }
    p
}

fn rand_poly(n: usize, rng: &mut impl RngCore) -> Poly {
    let c: Vec<Fq> = (0..n).map(|_| Fq::random(&mut *rng)).collect();
    poly_from(&c)
}

/// queries: (poly index, point index)
fn prove(params: &ParamsKZG<Bls12>, polys: &[Poly], points: &[Fq], queries: &[(usize, usize)]) -> Vec<u8> {
    let mut tr = T::init();
    let qs: Vec<_> = queries.iter().map(|&(p, x)| ProverQuery::new(points[x], &polys[p])).collect();
    Scheme::multi_open(params, &qs, &mut tr).expect("multi_open");
    tr.finalize()
}

fn verify(
    vp: &ParamsVerifierKZG<Bls12>,
    coms: &[G1Projective],
    queries: &[(usize, Fq, Fq)], // (com index, point, eval)
    proof: &[u8],
) -> bool {
    let mut tr = T::init_from_bytes(proof);
    let qs: Vec<_> = queries
        .iter()
        .map(|&(c, x, e)| VerifierQuery::<Fq, Scheme>::new(x, CommitmentLabel::NoLabel, &coms[c], e))
        .collect();
    match Scheme::multi_prepare(&qs, &mut tr) {
        Ok(g) => g.verify(vp).is_ok() && tr.assert_empty().is_ok(),
        Err(_) => false,
    }
}

fn run_case(
    params: &ParamsKZG<Bls12>,
    polys: &[Poly],
    points: &[Fq],
    queries: &[(usize, usize)],
    corrupt: bool,
    rng: &mut impl RngCore,
) -> Result<(), String> {
    let vp = params.verifier_params();
    let coms: Vec<G1Projective> = polys.iter().map(|p| Scheme::commit(params, p)).collect();
    let proof = prove(params, polys, points, queries);
    let vq: Vec<(usize, Fq, Fq)> = queries
        .iter()
        .map(|&(p, x)| (p, points[x], eval_polynomial(&polys[p], points[x])))
        .collect();
    if !verify(&vp, &coms, &vq, &proof) {
        return Err(format!("honest proof rejected: {queries:?}"));
    }
    if corrupt {
        // each eval
        for i in 0..vq.len() {
            let mut q = vq.clone();
            q[i].2 += Fq::ONE;
            if verify(&vp, &coms, &q, &proof) {
                return Err(format!("wrong eval {i} accepted: {queries:?}"));
            }
            let mut q = vq.clone();
            q[i].1 += Fq::ONE;
            if eval_polynomial(&polys[q[i].0], q[i].1) == q[i].2 {
                continue; // claim still true (constant polynomial)
            }
            if verify(&vp, &coms, &q, &proof) {
                return Err(format!("wrong point {i} accepted: {queries:?}"));
            }
        }
        // each commitment
        for c in 0..coms.len() {
            if !queries.iter().any(|&(p, _)| p == c) {
                continue;
            }
            let mut coms2 = coms.clone();
            coms2[c] = coms2[c] + params.verifier_params_g1();
            if verify(&vp, &coms2, &vq, &proof) {
                return Err(format!("wrong commitment {c} accepted: {queries:?}"));
            }
        }
        // proof bytes
        for _ in 0..3 {
            let mut pr = proof.clone();
            let i = (rng.next_u32() as usize) % pr.len();
            pr[i] ^= 1 << (rng.next_u32() % 8);
            let r = std::panic::catch_unwind(|| verify(&vp, &coms, &vq, &pr));
            match r {
                Ok(true) => return Err(format!("altered proof accepted (byte {i}): {queries:?}")),
                Ok(false) => {}
                Err(_) => return Err(format!("altered proof PANIC (byte {i}): {queries:?}")),
            }
        }
    }
    Ok(())
}

trait G1Gen {
    fn verifier_params_g1(&self) -> G1Projective;
}
impl G1Gen for ParamsKZG<Bls12> {
    fn verifier_params_g1(&self) -> G1Projective {
        use group::Group;
        G1Projective::generator()
    }
}

/// all assignment patterns: each poly gets a non-empty subset of the points
fn patterns(npolys: usize, npoints: usize) -> Vec<Vec<(usize, usize)>> {
    let subsets = (1usize << npoints) - 1;
    let mut out = vec![];
    let total = subsets.pow(npolys as u32);
    for mut code in 0..total {
        let mut qs = vec![];
        for p in 0..npolys {
            let s = code % subsets + 1;
            code /= subsets;
            for x in 0..npoints {
                if s >> x & 1 == 1 {
                    qs.push((p, x));
                }
            }
        }
        out.push(qs);
    }
    out
}

#[test]
#[ignore]
fn exhaustive_small() {
    let mut rng = ChaCha8Rng::seed_from_u64(14);
    for k in [2u32, 3] {
        let params = ParamsKZG::<Bls12>::unsafe_setup(k, &mut rng);
        let n = 1usize << k;
        for npolys in 1..=4 {
            for npoints in 1..=3 {
                let pats = patterns(npolys, npoints);
                let polys: Vec<Poly> = (0..npolys).map(|_| rand_poly(n, &mut rng)).collect();
                let points: Vec<Fq> = (0..npoints).map(|_| Fq::random(&mut rng)).collect();
                for (i, qs) in pats.iter().enumerate() {
                    // every point must be used? not required.
                    let corrupt = pats.len() < 400 || i % 37 == 0;
                    // also try a rotated / interleaved order
                    let mut qs2 = qs.clone();
                    qs2.sort_by_key(|&(p, x)| (x, p));
                    let mut qs3 = qs.clone();
                    qs3.reverse();
                    for q in [qs.clone(), qs2, qs3] {
                        if let Err(e) = run_case(&params, &polys, &points, &q, corrupt, &mut rng) {
                            panic!("k={k} npolys={npolys} npoints={npoints}: {e}");
                        }
                    }
                }
            }
        }
    }
}

#[test]
fn special_polys() {
    let mut rng = ChaCha8Rng::seed_from_u64(15);
    for k in 2u32..=7 {
        let params = ParamsKZG::<Bls12>::unsafe_setup(k, &mut rng);
        let n = 1usize << k;
        let zero = Poly::init(n);
        let mut cst = Poly::init(n);
        cst[0] = Fq::from(7);
        let r = rand_poly(n, &mut rng);
        let r2 = r.clone();
        let points: Vec<Fq> = (0..4).map(|_| Fq::random(&mut rng)).collect();
        let polys = vec![zero.clone(), cst.clone(), r, r2, zero, cst];
        let cases: Vec<Vec<(usize, usize)>> = vec![
            vec![(0, 0)],
            vec![(1, 0)],
            vec![(0, 0), (0, 1)],
            vec![(1, 0), (1, 1), (1, 2)],
            vec![(0, 0), (1, 0), (4, 0), (5, 0)],
            vec![(2, 0), (3, 0)],
            vec![(2, 0), (3, 1)],
            vec![(2, 0), (2, 1), (3, 1), (3, 2)],
            vec![(0, 0), (1, 1), (2, 2), (3, 3), (4, 0), (4, 1), (5, 2), (5, 3)],
            vec![(2, 0), (2, 1), (2, 2), (2, 3)],
            vec![(1, 0), (1, 1), (1, 2), (1, 3), (0, 0), (0, 1), (0, 2), (0, 3)],
        ];
        for q in cases {
            if let Err(e) = run_case(&params, &polys, &points, &q, true, &mut rng) {
                // wrong-commitment on unused commitments is naturally accepted; filter
                panic!("k={k}: {e}");
            }
        }
    }
}

#[test]
fn many_polys_five_points() {
    let mut rng = ChaCha8Rng::seed_from_u64(16);
    for k in 3u32..=7 {
        let params = ParamsKZG::<Bls12>::unsafe_setup(k, &mut rng);
        let n = 1usize << k;
        for npolys in [1usize, 5, 12] {
            let polys: Vec<Poly> = (0..npolys).map(|_| rand_poly(n, &mut rng)).collect();
            let points: Vec<Fq> = (0..5).map(|_| Fq::random(&mut rng)).collect();
            for _ in 0..6 {
                let mut qs = vec![];
                for p in 0..npolys {
                    let mut s = (rng.next_u32() % 31 + 1) as usize;
                    if p == 0 {
                        s = 31;
                    }
                    for x in 0..5 {
                        if s >> x & 1 == 1 {
                            qs.push((p, x));
                        }
                    }
                }
                let r = std::panic::catch_unwind(std::panic::AssertUnwindSafe(|| {
                    run_case(&params, &polys, &points, &qs, true, &mut ChaCha8Rng::seed_from_u64(1))
                }));
                match r {
                    Ok(Ok(())) => {}
                    Ok(Err(e)) => panic!("k={k} npolys={npolys}: {e}"),
                    Err(_) => panic!("k={k} npolys={npolys}: PANIC on {qs:?}"),
                }
            }
        }
    }
}

fn verify_q(
    vp: &ParamsVerifierKZG<Bls12>,
    qs: &[VerifierQuery<Fq, Scheme>],
    proof: &[u8],
) -> Result<bool, String> {
    let mut tr = T::init_from_bytes(proof);
    match Scheme::multi_prepare(qs, &mut tr) {
        Ok(g) => Ok(g.verify(vp).is_ok() && tr.assert_empty().is_ok()),
        Err(e) => Err(format!("{e:?}")),
    }
}

/// chopped commitment opened at one point, alongside ordinary ones
#[test]
fn chopped_single_point() {
    let mut rng = ChaCha8Rng::seed_from_u64(17);
    for k in 2u32..=5 {
        let params = ParamsKZG::<Bls12>::unsafe_setup(k, &mut rng);
        let vp = params.verifier_params();
        let n = 1usize << k;
        for npieces in 2..=4usize {
            for layout in 0..4 {
                let x = Fq::random(&mut rng);
                let y = Fq::random(&mut rng);
                // pieces with n-1 coefficients (padded to n)
                let pieces: Vec<Poly> = (0..npieces)
                    .map(|_| {
                        let mut p = rand_poly(n, &mut rng);
                        p[n - 1] = Fq::ZERO;
                        p
                    })
                    .collect();
                let piece_coms: Vec<G1Projective> = pieces.iter().map(|p| Scheme::commit(&params, p)).collect();
                let sf = x.pow([(n - 1) as u64]);
                let mut comb = Poly::init(n);
                let mut sc = Fq::ONE;
                for p in &pieces {
                    for (c, a) in comb.iter_mut().zip(p.iter()) {
                        *c += *a * sc;
                    }
                    sc *= sf;
                }
                let h_eval = eval_polynomial(&comb, x);
                let other = rand_poly(n, &mut rng);
                let other_com = Scheme::commit(&params, &other);
                let other2 = rand_poly(n, &mut rng);
                let other2_com = Scheme::commit(&params, &other2);

                // layouts: 0: chopped alone; 1: other@y first, chopped@x ; 2: other@{x,y}, chopped@x; 3: other2@y, other@x, chopped@x, other@y
                let mut pq = vec![];
                let refs: Vec<&G1Projective> = piece_coms.iter().collect();
                                let mut vq = vec![];
                match layout {
                    0 => {
                        pq.push(ProverQuery::new(x, &comb));
                        vq.push(mk_chopped(h_eval, x, &refs, n as u64));
                    }
                    1 => {
                        pq.push(ProverQuery::new(y, &other));
                        pq.push(ProverQuery::new(x, &comb));
                        vq.push(one(&other_com, y, eval_polynomial(&other, y)));
                        vq.push(mk_chopped(h_eval, x, &refs, n as u64));
                    }
                    2 => {
                        pq.push(ProverQuery::new(x, &other));
                        pq.push(ProverQuery::new(y, &other));
                        pq.push(ProverQuery::new(x, &comb));
                        vq.push(one(&other_com, x, eval_polynomial(&other, x)));
                        vq.push(one(&other_com, y, eval_polynomial(&other, y)));
                        vq.push(mk_chopped(h_eval, x, &refs, n as u64));
                    }
                    _ => {
                        pq.push(ProverQuery::new(y, &other2));
                        pq.push(ProverQuery::new(x, &other));
                        pq.push(ProverQuery::new(x, &comb));
                        pq.push(ProverQuery::new(y, &other));
                        vq.push(one(&other2_com, y, eval_polynomial(&other2, y)));
                        vq.push(one(&other_com, x, eval_polynomial(&other, x)));
                        vq.push(mk_chopped(h_eval, x, &refs, n as u64));
                        vq.push(one(&other_com, y, eval_polynomial(&other, y)));
                    }
                }
                let mut tr = T::init();
                Scheme::multi_open(&params, &pq, &mut tr).unwrap();
                let proof = tr.finalize();
                assert_eq!(verify_q(&vp, &vq, &proof), Ok(true), "k={k} pieces={npieces} layout={layout}");

                // corrupt each piece
                for i in 0..npieces {
                    let mut pc = piece_coms.clone();
                    use group::Group;
                    pc[i] += G1Projective::generator();
                    let refs2: Vec<&G1Projective> = pc.iter().collect();
                    let mut vq2 = vq.clone();
                    let idx = vq2.len() - if layout == 3 { 2 } else { 1 };
                    vq2[idx] = mk_chopped(h_eval, x, &refs2, n as u64);
                    assert_eq!(verify_q(&vp, &vq2, &proof), Ok(false), "piece {i} corrupted k={k} pieces={npieces} layout={layout}");
                }
                // corrupt eval / point of chopped
                let idx = vq.len() - if layout == 3 { 2 } else { 1 };
                let mut vq2 = vq.clone();
                vq2[idx] = mk_chopped(h_eval + Fq::ONE, x, &refs, n as u64);
                assert_eq!(verify_q(&vp, &vq2, &proof), Ok(false));
                let mut vq2 = vq.clone();
                vq2[idx] = mk_chopped(h_eval, x + Fq::ONE, &refs, n as u64);
                assert_eq!(verify_q(&vp, &vq2, &proof), Ok(false));
            }
        }
    }
}

fn mk_chopped<'a>(e: Fq, pt: Fq, refs: &[&'a G1Projective], n: u64) -> VerifierQuery<'a, Fq, Scheme> {
    VerifierQuery::<Fq, Scheme>::from_parts(pt, CommitmentLabel::NoLabel, refs, e, n)
}
fn one<'a>(c: &'a G1Projective, pt: Fq, e: Fq) -> VerifierQuery<'a, Fq, Scheme> {
    VerifierQuery::<Fq, Scheme>::new(pt, CommitmentLabel::NoLabel, c, e)
}

#[test]
fn empty_query_set() {
    let mut rng = ChaCha8Rng::seed_from_u64(18);
    let params = ParamsKZG::<Bls12>::unsafe_setup(2, &mut rng);
    let mut tr = T::init();
    let r = Scheme::multi_open(&params, &[], &mut tr);
    println!("multi_open on empty: {:?}", r.is_ok());
}
