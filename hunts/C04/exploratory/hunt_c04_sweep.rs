// Exploratory honest-witness sweep over pow2range column counts / table sizes / boundary values.
use midnight_circuits::{
    field::{
        decomposition::{
            chip::{P2RDecompositionChip, P2RDecompositionConfig},
            pow2range::Pow2RangeChip,
        },
        native::{NB_ARITH_COLS, NB_ARITH_FIXED_COLS},
        NativeChip, NativeGadget,
    },
    instructions::*,
    types::{AssignedBit, AssignedByte, AssignedNative, ComposableChip, InnerValue},
    CircuitField,
};
use midnight_proofs::{
    circuit::{Layouter, SimpleFloorPlanner, Value},
    dev::MockProver,
    plonk::{Circuit, ConstraintSystem, Error},
};
use num_bigint::BigUint;
use num_traits::{One, Zero};
use ff::Field;

type F = midnight_curves::Fq;
type NG = NativeGadget<F, P2RDecompositionChip<F>, NativeChip<F>>;

#[derive(Clone, Debug)]
enum Case {
    Bits(Option<usize>),
    Bytes(Option<usize>),
    Chunks(usize, Option<usize>),
    Sgn0,
    AssertLower(BigUint),
    AssignLower(BigUint),
    LowerThan(usize, F, bool), // n, y, expected (x < y)
    LowerThanFixed(usize, F, bool),
    LeqFixed(usize, F, bool),
    Leq(usize, F, bool),
    Geq(usize, F, bool),
    DivRem(BigUint, Option<BigUint>),
    Bnot(usize),
    Band(usize, F),
    GeqBits(usize, BigUint), // le_bits_geq_than on nb bits
    Inv0,
}

#[derive(Clone, Debug)]
struct Sweep<const COLS: usize> {
    max_bit_len: usize,
    x: F,
    case: Case,
}

fn fe(b: &BigUint) -> F {
    let mut bytes = b.to_bytes_le();
    bytes.resize(64, 0);
    let mut acc = F::ZERO;
    for byte in bytes.iter().rev() {
        acc = acc * F::from(256) + F::from(*byte as u64);
    }
    acc
}

impl<const COLS: usize> Circuit<F> for Sweep<COLS> {
    type Config = P2RDecompositionConfig;
    type FloorPlanner = SimpleFloorPlanner;
    type Params = ();

    fn without_witnesses(&self) -> Self {
        unreachable!()
    }

    fn configure(meta: &mut ConstraintSystem<F>) -> Self::Config {
        let advice_columns: [_; NB_ARITH_COLS] = core::array::from_fn(|_| meta.advice_column());
        let fixed_columns: [_; NB_ARITH_FIXED_COLS] =
            core::array::from_fn(|_| meta.fixed_column());
        let c = meta.instance_column();
        let i = meta.instance_column();
        let native_config = NativeChip::configure(meta, &(advice_columns, fixed_columns, [c, i]));
        let pow2range_config = Pow2RangeChip::configure(meta, &advice_columns[1..=COLS]);
        P2RDecompositionConfig::new(&native_config, &pow2range_config)
    }

    fn synthesize(&self, config: Self::Config, mut layouter: impl Layouter<F>) -> Result<(), Error> {
        let native_chip = NativeChip::new(config.native_config(), &());
        let core = P2RDecompositionChip::new(&config, &self.max_bit_len);
        let chip: NG = NativeGadget::new(core.clone(), native_chip.clone());
        let l = &mut layouter;
        let xb = self.x.to_biguint();
        let x: AssignedNative<F> = chip.assign(l, Value::known(self.x))?;
        match &self.case {
            Case::Bits(n) => {
                let bits = chip.assigned_to_le_bits(l, &x, *n, true)?;
                for (i, b) in bits.iter().enumerate() {
                    chip.assert_equal_to_fixed(l, b, xb.bit(i as u64))?;
                }
                let back = chip.assigned_from_le_bits(l, &bits)?;
                chip.assert_equal(l, &back, &x)?;
            }
            Case::Bytes(n) => {
                let bytes = chip.assigned_to_le_bytes(l, &x, *n)?;
                let mut exp = xb.to_bytes_le();
                exp.resize(bytes.len(), 0);
                for (b, e) in bytes.iter().zip(exp.iter()) {
                    chip.assert_equal_to_fixed(l, b, *e)?;
                }
                let back = chip.assigned_from_le_bytes(l, &bytes)?;
                chip.assert_equal(l, &back, &x)?;
            }
            Case::Chunks(size, n) => {
                let chunks = chip.assigned_to_le_chunks(l, &x, *size, *n)?;
                let mask = (BigUint::one() << *size) - BigUint::one();
                for (i, c) in chunks.iter().enumerate() {
                    let e = (&xb >> (i * size)) & &mask;
                    chip.assert_equal_to_fixed(l, c, fe(&e))?;
                }
            }
            Case::Sgn0 => {
                let s = chip.sgn0(l, &x)?;
                chip.assert_equal_to_fixed(l, &s, xb.bit(0))?;
            }
            Case::AssertLower(bound) => chip.assert_lower_than_fixed(l, &x, bound)?,
            Case::AssignLower(bound) => {
                let y = chip.assign_lower_than_fixed(l, Value::known(self.x), bound)?;
                chip.assert_equal(l, &x, &y)?;
            }
            Case::LowerThan(n, y, exp) => {
                let y: AssignedNative<F> = chip.assign(l, Value::known(*y))?;
                let bx = chip.bounded_of_element(l, *n, &x)?;
                let by = chip.bounded_of_element(l, *n, &y)?;
                let r = chip.lower_than(l, &bx, &by)?;
                chip.assert_equal_to_fixed(l, &r, *exp)?;
            }
            Case::Leq(n, y, exp) => {
                let y: AssignedNative<F> = chip.assign(l, Value::known(*y))?;
                let bx = chip.bounded_of_element(l, *n, &x)?;
                let by = chip.bounded_of_element(l, *n, &y)?;
                let r = chip.leq(l, &bx, &by)?;
                chip.assert_equal_to_fixed(l, &r, *exp)?;
                let r = chip.greater_than(l, &bx, &by)?;
                chip.assert_equal_to_fixed(l, &r, !*exp)?;
            }
            Case::Geq(n, y, exp) => {
                let y: AssignedNative<F> = chip.assign(l, Value::known(*y))?;
                let bx = chip.bounded_of_element(l, *n, &x)?;
                let by = chip.bounded_of_element(l, *n, &y)?;
                let r = chip.geq(l, &bx, &by)?;
                chip.assert_equal_to_fixed(l, &r, *exp)?;
            }
            Case::LowerThanFixed(n, y, exp) => {
                let bx = chip.bounded_of_element(l, *n, &x)?;
                let r = chip.lower_than_fixed(l, &bx, *y)?;
                chip.assert_equal_to_fixed(l, &r, *exp)?;
                let r = chip.geq_fixed(l, &bx, *y)?;
                chip.assert_equal_to_fixed(l, &r, !*exp)?;
            }
            Case::LeqFixed(n, y, exp) => {
                let bx = chip.bounded_of_element(l, *n, &x)?;
                let r = chip.leq_fixed(l, &bx, *y)?;
                chip.assert_equal_to_fixed(l, &r, *exp)?;
                let r = chip.greater_than_fixed(l, &bx, *y)?;
                chip.assert_equal_to_fixed(l, &r, !*exp)?;
            }
            Case::DivRem(d, bound) => {
                let (q, r) = chip.div_rem(l, &x, d.clone(), bound.clone())?;
                chip.assert_equal_to_fixed(l, &q, fe(&(&xb / d)))?;
                chip.assert_equal_to_fixed(l, &r, fe(&(&xb % d)))?;
            }
            Case::Bnot(n) => {
                let r = chip.bnot(l, &x, *n)?;
                let e = ((BigUint::one() << *n) + F::modulus() - BigUint::one() - &xb) % F::modulus();
                chip.assert_equal_to_fixed(l, &r, fe(&e))?;
            }
            Case::Band(n, y) => {
                let yb = y.to_biguint();
                let y: AssignedNative<F> = chip.assign(l, Value::known(*y))?;
                let r = chip.band(l, &x, &y, *n)?;
                chip.assert_equal_to_fixed(l, &r, fe(&(&xb & &yb)))?;
                let r = chip.bor(l, &x, &y, *n)?;
                chip.assert_equal_to_fixed(l, &r, fe(&(&xb | &yb)))?;
                let r = chip.bxor(l, &x, &y, *n)?;
                chip.assert_equal_to_fixed(l, &r, fe(&(&xb ^ &yb)))?;
            }
            Case::GeqBits(nb, bound) => {
                let bits = chip.assigned_to_le_bits(l, &x, Some(*nb), true)?;
                let r = chip.le_bits_geq_than(l, &bits, bound.clone())?;
                chip.assert_equal_to_fixed(l, &r, xb >= *bound)?;
                let r = chip.le_bits_lower_than(l, &bits, bound.clone())?;
                chip.assert_equal_to_fixed(l, &r, xb < *bound)?;
            }
            Case::Inv0 => {
                let r = chip.inv0(l, &x)?;
                let e = self.x.invert().unwrap_or(F::ZERO);
                chip.assert_equal_to_fixed(l, &r, e)?;
                let z = chip.is_zero(l, &x)?;
                chip.assert_equal_to_fixed(l, &z, self.x == F::ZERO)?;
            }
        }
        native_chip.load(l)?;
        core.load(l)
    }
}

fn run(cols: usize, max_bit_len: usize, x: F, case: Case) -> bool {
    let k = (max_bit_len as u32 + 2).max(12);
    macro_rules! go {
        ($c:literal) => {
            MockProver::<F>::run(k, &Sweep::<$c> { max_bit_len, x, case: case.clone() }, vec![vec![], vec![]])
                .expect("synthesis")
                .verify()
                .is_ok()
        };
    }
    match cols {
        1 => go!(1),
        2 => go!(2),
        3 => go!(3),
        4 => go!(4),
        _ => unreachable!(),
    }
}

static LAST_PANIC: std::sync::Mutex<String> = std::sync::Mutex::new(String::new());
fn install_hook() {
    std::panic::set_hook(Box::new(|info| {
        *LAST_PANIC.lock().unwrap() = format!("{info}").replace('\n', " ");
    }));
}
fn check(cols: usize, mbl: usize, x: F, case: Case, expected: bool, failures: &mut Vec<String>) {
    let c2 = case.clone();
    let res = std::panic::catch_unwind(|| run(cols, mbl, x, c2));
    match res {
        Ok(ok) if ok == expected => {}
        Ok(ok) => failures.push(format!(
            "cols={cols} mbl={mbl} x={:?} case={:?}: accepted={ok}, expected {expected}",
            x.to_biguint(), case
        )),
        Err(_) => failures.push(format!(
            "cols={cols} mbl={mbl} x={:?} case={:?}: PANIC (expected accepted={expected}) [{}]",
            x.to_biguint(), case, LAST_PANIC.lock().unwrap()
        )),
    }
}

fn boundary_values() -> Vec<BigUint> {
    let p = F::modulus();
    let one = BigUint::one();
    let mut v = vec![
        BigUint::zero(),
        one.clone(),
        BigUint::from(2u8),
        BigUint::from(255u8),
        BigUint::from(256u16),
        (&one << 64) - &one,
        &one << 64,
        (&one << 128) - &one,
        (&one << 253) - &one,
        &one << 253,
        (&one << 254) - &one,
        &one << 254,
        (&p - &one) / 2u8,
        (&p + &one) / 2u8,
        &p - &one,
        &p - 2u8,
    ];
    v.push(BigUint::parse_bytes(b"123456789abcdef0fedcba9876543210deadbeef", 16).unwrap());
    v
}

#[test]
fn sweep_decompositions() {
    install_hook();
    let mut failures = vec![];
    let p = F::modulus();
    for (cols, mbl) in [(1, 8), (2, 9), (3, 8), (4, 8), (4, 11), (1, 12)] {
        for xb in boundary_values() {
            let x = fe(&xb);
            check(cols, mbl, x, Case::Bits(None), true, &mut failures);
            check(cols, mbl, x, Case::Bytes(None), true, &mut failures);
            check(cols, mbl, x, Case::Sgn0, true, &mut failures);
            check(cols, mbl, x, Case::Inv0, true, &mut failures);
            let nb = xb.bits() as usize;
            check(cols, mbl, x, Case::Bits(Some(nb)), true, &mut failures);
            if nb > 0 {
                check(cols, mbl, x, Case::Bits(Some(nb - 1)), false, &mut failures);
            }
            let nbytes = nb.div_ceil(8);
            check(cols, mbl, x, Case::Bytes(Some(nbytes)), true, &mut failures);
            if nbytes > 0 {
                check(cols, mbl, x, Case::Bytes(Some(nbytes - 1)), false, &mut failures);
            }
            for size in [1usize, 3, 7, 8, 9, 12, 13, 16, 31, 63] {
                if cols == 1 && size < 7 { continue; } // keep the run short
                check(cols, mbl, x, Case::Chunks(size, None), true, &mut failures);
                let n = nb.div_ceil(size);
                check(cols, mbl, x, Case::Chunks(size, Some(n)), true, &mut failures);
                if n > 0 && (n - 1) * size < nb {
                    check(cols, mbl, x, Case::Chunks(size, Some(n - 1)), false, &mut failures);
                }
            }
            // range checks
            for bound in [&xb + 1u8, xb.clone(), &xb + 2u8, (&xb * 2u8) + 3u8] {
                if bound.is_zero() || bound > p { continue; }
                let exp = xb < bound;
                check(cols, mbl, x, Case::AssertLower(bound.clone()), exp, &mut failures);
                check(cols, mbl, x, Case::AssignLower(bound.clone()), exp, &mut failures);
            }
        }
    }
    for f in &failures { eprintln!("FAIL: {f}"); }
    assert!(failures.is_empty(), "{} failures", failures.len());
}

#[test]
fn sweep_comparisons_and_division() {
    install_hook();
    let mut failures = vec![];
    let one = BigUint::one();
    for (cols, mbl) in [(1, 8), (2, 9), (3, 8), (4, 8)] {
        let small: Vec<BigUint> = vec![
            BigUint::zero(), one.clone(), BigUint::from(2u8), BigUint::from(255u8),
            BigUint::from(256u16), (&one << 16) - &one, (&one << 64) - &one, &one << 64,
            (&one << 128) - &one, (&one << 200), (&one << 253) - &one,
        ];
        for xb in &small {
            for yb in &small {
                let n = (xb.bits().max(yb.bits()) as usize).max(1);
                for n in [n, (n + 5).min(253), 253] {
                    let (x, y) = (fe(xb), fe(yb));
                    check(cols, mbl, x, Case::LowerThan(n, y, xb < yb), true, &mut failures);
                    check(cols, mbl, x, Case::LowerThan(n, y, !(xb < yb)), false, &mut failures);
                    check(cols, mbl, x, Case::Leq(n, y, xb <= yb), true, &mut failures);
                    check(cols, mbl, x, Case::Geq(n, y, xb >= yb), true, &mut failures);
                    if yb.bits() < 253 {
                        check(cols, mbl, x, Case::LowerThanFixed(n, y, xb < yb), true, &mut failures);
                        check(cols, mbl, x, Case::LowerThanFixed(n, y, !(xb < yb)), false, &mut failures);
                        check(cols, mbl, x, Case::LeqFixed(n, y, xb <= yb), true, &mut failures);
                    }
                }
            }
            // division with an explicit (valid) bound
            for d in [2u64, 3, 255, 256, 65537, u64::MAX] {
                let d = BigUint::from(d);
                let bound = (&one << 254) - &one;
                if d <= bound {
                    check(cols, mbl, fe(xb), Case::DivRem(d.clone(), Some(bound.clone())), true, &mut failures);
                }
                let tight = xb.clone().max(d.clone());
                check(cols, mbl, fe(xb), Case::DivRem(d.clone(), Some(tight)), true, &mut failures);
            }
            check(cols, mbl, fe(xb), Case::DivRem(one.clone(), None), true, &mut failures);
            // bitwise
            let nb = (xb.bits() as usize).max(1);
            for n in [nb, nb + 1] {
                if n > 254 { continue; }
                check(cols, mbl, fe(xb), Case::Bnot(n), true, &mut failures);
                check(cols, mbl, fe(xb), Case::Band(n, fe(&((&one << n) - &one))), true, &mut failures);
                check(cols, mbl, fe(xb), Case::Band(n, F::from(0x5a5a)), n >= 15, &mut failures);
            }
            if nb > 1 {
                check(cols, mbl, fe(xb), Case::Bnot(nb - 1), false, &mut failures);
            }
            for bound in [BigUint::zero(), one.clone(), xb.clone(), xb + 1u8, &one << nb, (&one << nb) + &one] {
                check(cols, mbl, fe(xb), Case::GeqBits(nb, bound), true, &mut failures);
            }
        }
    }
    for f in &failures { eprintln!("FAIL: {f}"); }
    assert!(failures.is_empty(), "{} failures", failures.len());
}
