// Exploratory honest-witness sweep of VectorGadget over small (M, A).
use midnight_circuits::{
    field::{
        decomposition::{
            chip::{P2RDecompositionChip, P2RDecompositionConfig},
            pow2range::Pow2RangeChip,
        },
        native::{NB_ARITH_COLS, NB_ARITH_FIXED_COLS},
        NativeChip, NativeGadget,
    },
    instructions::*,
    types::{AssignedBit, AssignedByte, AssignedNative, AssignedVector, ComposableChip},
    vec::{get_lims, vector_gadget::VectorGadget},
};
use midnight_proofs::{
    circuit::{Layouter, SimpleFloorPlanner, Value},
    dev::MockProver,
    plonk::{Circuit, ConstraintSystem, Error},
};

type F = midnight_curves::Fq;
type NG = NativeGadget<F, P2RDecompositionChip<F>, NativeChip<F>>;

#[derive(Clone, Debug)]
struct VecCircuit<const M: usize, const A: usize> {
    len: usize,
    trim: usize,
    bytes: bool,
}

impl<const M: usize, const A: usize> Circuit<F> for VecCircuit<M, A> {
    type Config = P2RDecompositionConfig;
    type FloorPlanner = SimpleFloorPlanner;
    type Params = ();
    fn without_witnesses(&self) -> Self { unreachable!() }
    fn configure(meta: &mut ConstraintSystem<F>) -> Self::Config {
        let advice_columns: [_; NB_ARITH_COLS] = core::array::from_fn(|_| meta.advice_column());
        let fixed_columns: [_; NB_ARITH_FIXED_COLS] = core::array::from_fn(|_| meta.fixed_column());
        let c = meta.instance_column();
        let i = meta.instance_column();
        let native_config = NativeChip::configure(meta, &(advice_columns, fixed_columns, [c, i]));
        let pow2range_config = Pow2RangeChip::configure(meta, &advice_columns[1..=2]);
        P2RDecompositionConfig::new(&native_config, &pow2range_config)
    }
    fn synthesize(&self, config: Self::Config, mut layouter: impl Layouter<F>) -> Result<(), Error> {
        let native_chip = NativeChip::new(config.native_config(), &());
        let core = P2RDecompositionChip::new(&config, &8);
        let ng: NG = NativeGadget::new(core.clone(), native_chip.clone());
        let vg = VectorGadget::new(&ng);
        let l = &mut layouter;

        if self.bytes {
            let data: Vec<u8> = (1..=self.len as u8).collect();
            let v: AssignedVector<F, AssignedByte<F>, M, A> =
                vg.assign_with_filler(l, Value::known(data.clone()), Some(0xEE))?;
            // padding flag
            let flags: [AssignedBit<F>; M] = vg.padding_flag(l, &v)?;
            let range = get_lims::<M, A>(self.len);
            for (i, f) in flags.iter().enumerate() {
                ng.assert_equal_to_fixed(l, f, !range.contains(&i))?;
            }
            // limits
            let (s, e) = vg.get_limits(l, &v)?;
            ng.assert_equal_to_fixed(l, &s, F::from(range.start as u64))?;
            ng.assert_equal_to_fixed(l, &e, F::from(range.end as u64))?;
            // trim
            let t = vg.trim_beginning(l, &v, self.trim)?;
            vg.assert_equal_to_fixed(l, &t, data[self.trim..].to_vec())?;
            let flags: [AssignedBit<F>; M] = vg.padding_flag(l, &t)?;
            let range = get_lims::<M, A>(self.len - self.trim);
            for (i, f) in flags.iter().enumerate() {
                ng.assert_equal_to_fixed(l, f, !range.contains(&i))?;
            }
            // equality against an independently assigned copy of the trimmed vector
            let w: AssignedVector<F, AssignedByte<F>, M, A> =
                vg.assign_with_filler(l, Value::known(data[self.trim..].to_vec()), Some(0x11))?;
            let eq = vg.is_equal(l, &t, &w)?;
            ng.assert_equal_to_fixed(l, &eq, true)?;
            let eq = vg.is_equal(l, &w, &t)?;
            ng.assert_equal_to_fixed(l, &eq, true)?;
            if self.len > self.trim {
                let mut other = data[self.trim..].to_vec();
                *other.last_mut().unwrap() ^= 1;
                let eq = vg.is_equal_to_fixed(l, &t, other.clone())?;
                ng.assert_equal_to_fixed(l, &eq, false)?;
                let mut other = data[self.trim..].to_vec();
                other[0] ^= 1;
                let o: AssignedVector<F, AssignedByte<F>, M, A> = vg.assign(l, Value::known(other))?;
                let eq = vg.is_equal(l, &t, &o)?;
                ng.assert_equal_to_fixed(l, &eq, false)?;
            }
            let eq = vg.is_equal_to_fixed(l, &t, data[self.trim..].to_vec())?;
            ng.assert_equal_to_fixed(l, &eq, true)?;
            if self.len < M {
                // same data, one more element
                let mut longer = data[self.trim..].to_vec();
                longer.push(0xEE);
                if longer.len() <= M {
                    let eq = vg.is_equal_to_fixed(l, &t, longer)?;
                    ng.assert_equal_to_fixed(l, &eq, false)?;
                }
            }
        } else {
            let data: Vec<F> = (1..=self.len as u64).map(F::from).collect();
            let v: AssignedVector<F, AssignedNative<F>, M, A> = vg.assign(l, Value::known(data.clone()))?;
            let t = vg.trim_beginning(l, &v, self.trim)?;
            vg.assert_equal_to_fixed(l, &t, data[self.trim..].to_vec())?;
            let w: AssignedVector<F, AssignedNative<F>, M, A> =
                vg.assign_with_filler(l, Value::known(data[self.trim..].to_vec()), Some(F::from(77)))?;
            let eq = vg.is_equal(l, &t, &w)?;
            ng.assert_equal_to_fixed(l, &eq, true)?;
        }
        native_chip.load(l)?;
        core.load(l)
    }
}

static LAST_PANIC: std::sync::Mutex<String> = std::sync::Mutex::new(String::new());
fn run<const M: usize, const A: usize>(failures: &mut Vec<String>) {
    std::panic::set_hook(Box::new(|info| {
        *LAST_PANIC.lock().unwrap() = format!("{info}").replace('\n', " ");
    }));
    for len in 0..=M {
        for trim in 0..=len {
            for bytes in [true, false] {
                let c = VecCircuit::<M, A> { len, trim, bytes };
                let r = std::panic::catch_unwind(|| {
                    MockProver::<F>::run(12, &c, vec![vec![], vec![]]).expect("synthesis").verify()
                });
                match r {
                    Ok(Ok(())) => {}
                    Ok(Err(e)) => failures.push(format!("M={M} A={A} len={len} trim={trim} bytes={bytes}: rejected ({} failures, first: {:?})", e.len(), e[0])),
                    Err(_) => failures.push(format!("M={M} A={A} len={len} trim={trim} bytes={bytes}: PANIC [{}]", LAST_PANIC.lock().unwrap())),
                }
            }
        }
    }
}

#[test]
fn vector_sweep() {
    let mut failures = vec![];
    run::<4, 1>(&mut failures);
    run::<4, 2>(&mut failures);
    run::<4, 4>(&mut failures);
    run::<6, 2>(&mut failures);
    run::<6, 3>(&mut failures);
    run::<6, 4>(&mut failures);
    run::<8, 3>(&mut failures);
    run::<8, 4>(&mut failures);
    run::<8, 8>(&mut failures);
    run::<5, 5>(&mut failures);
    run::<7, 2>(&mut failures);
    run::<9, 4>(&mut failures);
    for f in &failures { eprintln!("FAIL: {f}"); }
    assert!(failures.is_empty(), "{} failures", failures.len());
}
