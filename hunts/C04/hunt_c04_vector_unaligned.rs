// HUNT C04 / defect 3.
//
// Belongs to: circuits/tests/hunt_c04_vector_unaligned.rs
// Run with:
//   CARGO_TARGET_DIR=/tmp/hunt-C04/target cargo test --offline -j 4 -p midnight-circuits \
//       --test hunt_c04_vector_unaligned
//
// `AssignedVector<F, T, M, A>` is documented as holding any vector of length in `[0, M]`
// ("`len` ... is guaranteed to be in the range `[0, M]`", `assign_with_filler` "# Panics: if
// |value| > M") and the in-circuit range check on `len` admits every value up to `M`.
// When `A` does not divide `M` (a configuration the crate's own unit tests instantiate, e.g.
// `<128, 3>` and `<128, 5>`), `get_lims` assumes that the buffer is a whole number of chunks:
// for every length in `(floor(M / A) * A, M]` the start index `M - len - final_pad` underflows, so
//  * `VectorGadget::assign` / `assign_with_filler` panic on a max-length (admissible) vector,
//  * `is_equal_to_fixed` / `assert_equal_to_fixed` panic on a constant of admissible length instead
//    of answering `false` / making the circuit unsatisfiable.

use midnight_circuits::{
    field::{
        decomposition::{
            chip::{P2RDecompositionChip, P2RDecompositionConfig},
            pow2range::Pow2RangeChip,
        },
        native::{NB_ARITH_COLS, NB_ARITH_FIXED_COLS},
        NativeChip, NativeGadget,
    },
    instructions::*,
    types::{AssignedNative, AssignedVector, ComposableChip},
    vec::vector_gadget::VectorGadget,
};
use midnight_proofs::{
    circuit::{Layouter, SimpleFloorPlanner, Value},
    dev::{MockProver, VerifyFailure},
    plonk::{Circuit, ConstraintSystem, Error},
};

type F = midnight_curves::Fq;
type NG = NativeGadget<F, P2RDecompositionChip<F>, NativeChip<F>>;

#[derive(Clone, Copy, Debug)]
enum Op {
    /// Assign a vector of `len` elements and check it against itself as a constant.
    Assign,
    /// Assign a vector of 6 elements and compare it with a constant of `len` elements.
    IsEqualToFixed,
}

#[derive(Clone, Debug)]
struct VecCircuit<const M: usize, const A: usize> {
    len: usize,
    op: Op,
}

impl<const M: usize, const A: usize> Circuit<F> for VecCircuit<M, A> {
    type Config = P2RDecompositionConfig;
    type FloorPlanner = SimpleFloorPlanner;
    type Params = ();

    fn without_witnesses(&self) -> Self {
        unreachable!()
    }

    fn configure(meta: &mut ConstraintSystem<F>) -> Self::Config {
        let advice_columns: [_; NB_ARITH_COLS] = core::array::from_fn(|_| meta.advice_column());
        let fixed_columns: [_; NB_ARITH_FIXED_COLS] =
            core::array::from_fn(|_| meta.fixed_column());
        let committed = meta.instance_column();
        let instance = meta.instance_column();
        let native_config =
            NativeChip::configure(meta, &(advice_columns, fixed_columns, [committed, instance]));
        let pow2range_config = Pow2RangeChip::configure(meta, &advice_columns[1..=4]);
        P2RDecompositionConfig::new(&native_config, &pow2range_config)
    }

    fn synthesize(&self, config: Self::Config, mut layouter: impl Layouter<F>) -> Result<(), Error> {
        let native_chip = NativeChip::new(config.native_config(), &());
        let core = P2RDecompositionChip::new(&config, &8);
        let ng: NG = NativeGadget::new(core.clone(), native_chip.clone());
        let vg = VectorGadget::new(&ng);
        let l = &mut layouter;

        let data: Vec<F> = (1..=self.len as u64).map(F::from).collect();
        match self.op {
            Op::Assign => {
                let v: AssignedVector<F, AssignedNative<F>, M, A> =
                    vg.assign(l, Value::known(data.clone()))?;
                vg.assert_equal_to_fixed(l, &v, data)?;
            }
            Op::IsEqualToFixed => {
                let six: Vec<F> = (1..=6u64).map(F::from).collect();
                let v: AssignedVector<F, AssignedNative<F>, M, A> =
                    vg.assign(l, Value::known(six))?;
                let eq = vg.is_equal_to_fixed(l, &v, data)?;
                ng.assert_equal_to_fixed(l, &eq, self.len == 6)?;
            }
        }

        native_chip.load(l)?;
        core.load(l)
    }
}

fn run<const M: usize, const A: usize>(len: usize, op: Op) -> Result<(), Vec<VerifyFailure>> {
    MockProver::<F>::run(11, &VecCircuit::<M, A> { len, op }, vec![vec![], vec![]])
        .expect("synthesis must not fail")
        .verify()
}

/// Control: with `A | M` every length in `[0, M]` is fine, including the maximal one.
#[test]
fn aligned_capacity_holds_every_length() {
    for len in 0..=8 {
        assert_eq!(run::<8, 4>(len, Op::Assign), Ok(()), "len = {len}");
        assert_eq!(run::<8, 4>(len, Op::IsEqualToFixed), Ok(()), "len = {len}");
    }
}

/// `M = 8`, `A = 3`: lengths up to 6 work ...
#[test]
fn unaligned_capacity_short_vectors() {
    for len in 0..=6 {
        assert_eq!(run::<8, 3>(len, Op::Assign), Ok(()), "len = {len}");
    }
}

/// ... but the admissible lengths 7 and 8 (= M, the max-length vector) panic at assignment.
#[test]
fn unaligned_capacity_max_length_vector() {
    for len in 7..=8 {
        assert_eq!(run::<8, 3>(len, Op::Assign), Ok(()), "len = {len}");
    }
}

/// Comparing a 6-element vector with a 7-element constant must yield `false`, not a panic.
#[test]
fn unaligned_capacity_is_equal_to_fixed() {
    for len in [5, 6, 7, 8] {
        assert_eq!(run::<8, 3>(len, Op::IsEqualToFixed), Ok(()), "len = {len}");
    }
}
