// HUNT C04 / defect 1.
//
// Belongs to: circuits/tests/hunt_c04_chunks.rs.
// Run with:
//   CARGO_TARGET_DIR=/tmp/hunt-C04/target cargo test --offline -j 4 -p midnight-circuits \
//       --test hunt_c04_chunks
//
// `DecompositionInstructions::assigned_to_le_chunks` documents a single restriction on the chunk
// size (`# Panics: if nb_bits_per_chunk >= F::NUM_BITS`). For every chunk size in
// [64, F::NUM_BITS) the honest witness generation is broken:
// `decompose_in_variable_limbsizes` (circuits/src/field/decomposition/cpu_utils.rs) computes the
// limb mask as `let mask_bits: u64 = (1 << limb_size) - 1;`, which overflows for
// `limb_size >= 64` (panic "attempt to shift left with overflow" in debug builds, a wrong mask -
// hence wrong limbs and an unsatisfiable circuit - in release builds, where the shift wraps).

// ---- harness (public API only) ----
#[allow(unused_imports)]
use midnight_circuits::{
    field::{
        decomposition::{
            chip::{P2RDecompositionChip, P2RDecompositionConfig},
            pow2range::Pow2RangeChip,
        },
        native::{NB_ARITH_COLS, NB_ARITH_FIXED_COLS},
        AssignedBounded, NativeChip, NativeGadget,
    },
    instructions::*,
    types::{AssignedBit, AssignedByte, AssignedNative, ComposableChip},
};
#[allow(unused_imports)]
use midnight_proofs::{
    circuit::{Layouter, SimpleFloorPlanner, Value},
    dev::{MockProver, VerifyFailure},
    plonk::{Circuit, ConstraintSystem, Error},
};

#[allow(dead_code)]
type F = midnight_curves::Fq;
#[allow(dead_code)]
type NG = NativeGadget<F, P2RDecompositionChip<F>, NativeChip<F>>;

/// Builds a circuit around a `NativeGadget` with `$cols` pow2range columns and
/// a lookup table of `$max_bit_len` bits, runs `$body` in `synthesize` and
/// returns the verdict of the mock prover (`Result<(), Vec<VerifyFailure>>`).
#[allow(unused_macros)]
macro_rules! run_ng {
    ($cols:expr, $max_bit_len:expr, $k:expr, |$chip:ident, $layouter:ident| $body:block) => {{
        struct TestCircuit;

        impl Circuit<F> for TestCircuit {
            type Config = P2RDecompositionConfig;
            type FloorPlanner = SimpleFloorPlanner;
            type Params = ();

            fn without_witnesses(&self) -> Self {
                unreachable!()
            }

            fn configure(meta: &mut ConstraintSystem<F>) -> Self::Config {
                let advice_columns: [_; NB_ARITH_COLS] =
                    core::array::from_fn(|_| meta.advice_column());
                let fixed_columns: [_; NB_ARITH_FIXED_COLS] =
                    core::array::from_fn(|_| meta.fixed_column());
                let committed_instance_column = meta.instance_column();
                let instance_column = meta.instance_column();
                let native_config = NativeChip::configure(
                    meta,
                    &(
                        advice_columns,
                        fixed_columns,
                        [committed_instance_column, instance_column],
                    ),
                );
                let pow2range_config =
                    Pow2RangeChip::configure(meta, &advice_columns[1..=$cols]);
                P2RDecompositionConfig::new(&native_config, &pow2range_config)
            }

            fn synthesize(
                &self,
                config: Self::Config,
                mut $layouter: impl Layouter<F>,
            ) -> Result<(), Error> {
                let max_bit_len: usize = $max_bit_len;
                let native_chip = NativeChip::new(config.native_config(), &());
                let core_decomposition_chip = P2RDecompositionChip::new(&config, &max_bit_len);
                let $chip: NG =
                    NativeGadget::new(core_decomposition_chip.clone(), native_chip.clone());

                $body

                native_chip.load(&mut $layouter)?;
                core_decomposition_chip.load(&mut $layouter)
            }
        }

        MockProver::<F>::run($k, &TestCircuit, vec![vec![], vec![]])
            .expect("synthesis must not fail")
            .verify()
    }};
}
// ---- end of harness ----

/// Control: chunk sizes in (max_bit_len, 64) take the very same code path and work.
#[test]
fn chunks_of_32_bits_are_fine() {
    let res = run_ng!(4, 8, 10, |chip, layouter| {
        let v = (7u64 << 32) + 5;
        let x = chip.assign(&mut layouter, Value::known(F::from(v)))?;
        let chunks = chip.assigned_to_le_chunks(&mut layouter, &x, 32, Some(2))?;
        assert_eq!(chunks.len(), 2);
        chip.assert_equal_to_fixed(&mut layouter, &chunks[0], F::from(5))?;
        chip.assert_equal_to_fixed(&mut layouter, &chunks[1], F::from(7))?;
    });
    assert_eq!(res, Ok(()));
}

/// x = 5 + 7 * 2^64 must decompose in two 64-bit chunks (5, 7).
#[test]
fn chunks_of_64_bits() {
    let res = run_ng!(4, 8, 10, |chip, layouter| {
        let v = F::from(5) + F::from(7) * F::from(u64::MAX) + F::from(7);
        let x = chip.assign(&mut layouter, Value::known(v))?;
        let chunks = chip.assigned_to_le_chunks(&mut layouter, &x, 64, Some(2))?;
        assert_eq!(chunks.len(), 2);
        chip.assert_equal_to_fixed(&mut layouter, &chunks[0], F::from(5))?;
        chip.assert_equal_to_fixed(&mut layouter, &chunks[1], F::from(7))?;
    });
    assert_eq!(res, Ok(()));
}

/// Same with 100-bit chunks and the default number of chunks (3 chunks for a 255-bit field).
#[test]
fn chunks_of_100_bits_default_number() {
    let res = run_ng!(4, 8, 11, |chip, layouter| {
        // (a value above 2^36, so that the wrapped mask of release builds is wrong as well)
        let v = F::from((1u64 << 40) + 12345);
        let x = chip.assign(&mut layouter, Value::known(v))?;
        let chunks = chip.assigned_to_le_chunks(&mut layouter, &x, 100, None)?;
        assert_eq!(chunks.len(), 3);
        chip.assert_equal_to_fixed(&mut layouter, &chunks[0], v)?;
        chip.assert_equal_to_fixed(&mut layouter, &chunks[1], F::from(0))?;
        chip.assert_equal_to_fixed(&mut layouter, &chunks[2], F::from(0))?;
    });
    assert_eq!(res, Ok(()));
}
