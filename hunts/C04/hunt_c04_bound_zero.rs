// HUNT C04 / defect 2.
//
// Belongs to: circuits/tests/hunt_c04_bound_zero.rs.
// Run with:
//   CARGO_TARGET_DIR=/tmp/hunt-C04/target cargo test --offline -j 4 -p midnight-circuits \
//       --test hunt_c04_bound_zero
//
// `RangeCheckInstructions` with the empty range `[0, 0)`:
//  * `assign_lower_than_fixed(value, 0)` silently discards `value` and returns the constant 0,
//    i.e. it hands out "an element strictly lower than 0" whose value is 0, and the circuit is
//    satisfied whatever the witness was;
//  * `assert_lower_than_fixed(x, 0)` panics (`bound.bits() - 1` underflows) instead of making the
//    circuit unsatisfiable.
// No element is strictly lower than 0, so both must make the circuit unsatisfiable.
// The panic is reachable through `VectorInstructions::trim_beginning(v, M + 1)`, whose documentation
// promises an unsatisfiable circuit when the vector is shorter than `n_elems`.

// ---- harness (public API only) ----
#[allow(unused_imports)]
use midnight_circuits::{
    field::{
        decomposition::{
            chip::{P2RDecompositionChip, P2RDecompositionConfig},
            pow2range::Pow2RangeChip,
        },
        native::{NB_ARITH_COLS, NB_ARITH_FIXED_COLS},
        AssignedBounded, NativeChip, NativeGadget,
    },
    instructions::*,
    types::{AssignedBit, AssignedByte, AssignedNative, ComposableChip},
};
#[allow(unused_imports)]
use midnight_proofs::{
    circuit::{Layouter, SimpleFloorPlanner, Value},
    dev::{MockProver, VerifyFailure},
    plonk::{Circuit, ConstraintSystem, Error},
};

#[allow(dead_code)]
type F = midnight_curves::Fq;
#[allow(dead_code)]
type NG = NativeGadget<F, P2RDecompositionChip<F>, NativeChip<F>>;

/// Builds a circuit around a `NativeGadget` with `$cols` pow2range columns and
/// a lookup table of `$max_bit_len` bits, runs `$body` in `synthesize` and
/// returns the verdict of the mock prover (`Result<(), Vec<VerifyFailure>>`).
#[allow(unused_macros)]
macro_rules! run_ng {
    ($cols:expr, $max_bit_len:expr, $k:expr, |$chip:ident, $layouter:ident| $body:block) => {{
        struct TestCircuit;

        impl Circuit<F> for TestCircuit {
            type Config = P2RDecompositionConfig;
            type FloorPlanner = SimpleFloorPlanner;
            type Params = ();

            fn without_witnesses(&self) -> Self {
                unreachable!()
            }

            fn configure(meta: &mut ConstraintSystem<F>) -> Self::Config {
                let advice_columns: [_; NB_ARITH_COLS] =
                    core::array::from_fn(|_| meta.advice_column());
                let fixed_columns: [_; NB_ARITH_FIXED_COLS] =
                    core::array::from_fn(|_| meta.fixed_column());
                let committed_instance_column = meta.instance_column();
                let instance_column = meta.instance_column();
                let native_config = NativeChip::configure(
                    meta,
                    &(
                        advice_columns,
                        fixed_columns,
                        [committed_instance_column, instance_column],
                    ),
                );
                let pow2range_config =
                    Pow2RangeChip::configure(meta, &advice_columns[1..=$cols]);
                P2RDecompositionConfig::new(&native_config, &pow2range_config)
            }

            fn synthesize(
                &self,
                config: Self::Config,
                mut $layouter: impl Layouter<F>,
            ) -> Result<(), Error> {
                let max_bit_len: usize = $max_bit_len;
                let native_chip = NativeChip::new(config.native_config(), &());
                let core_decomposition_chip = P2RDecompositionChip::new(&config, &max_bit_len);
                let $chip: NG =
                    NativeGadget::new(core_decomposition_chip.clone(), native_chip.clone());

                $body

                native_chip.load(&mut $layouter)?;
                core_decomposition_chip.load(&mut $layouter)
            }
        }

        MockProver::<F>::run($k, &TestCircuit, vec![vec![], vec![]])
            .expect("synthesis must not fail")
            .verify()
    }};
}
// ---- end of harness ----
use num_bigint::BigUint;

#[test]
fn assign_lower_than_zero_must_be_unsatisfiable() {
    let res = run_ng!(4, 8, 10, |chip, layouter| {
        let _y: AssignedNative<F> = chip.assign_lower_than_fixed(
            &mut layouter,
            Value::known(F::from(5)),
            &BigUint::from(0u8),
        )?;
    });
    assert!(
        res.is_err(),
        "a witness 5 was accepted as 'strictly lower than 0'"
    );
}

#[test]
fn assign_lower_than_zero_hands_out_the_constant_zero() {
    // The witness 5 is dropped: the returned cell is (provably) 0, and the circuit is satisfied.
    let res = run_ng!(4, 8, 10, |chip, layouter| {
        let y: AssignedNative<F> = chip.assign_lower_than_fixed(
            &mut layouter,
            Value::known(F::from(5)),
            &BigUint::from(0u8),
        )?;
        chip.assert_equal_to_fixed(&mut layouter, &y, F::from(0))?;
    });
    assert!(
        res.is_err(),
        "assign_lower_than_fixed(5, bound = 0) returned a cell equal to 0 and the circuit is satisfied"
    );
}

#[test]
fn assert_lower_than_zero_must_not_panic() {
    let outcome = std::panic::catch_unwind(|| {
        run_ng!(4, 8, 10, |chip, layouter| {
            let x = chip.assign(&mut layouter, Value::known(F::from(0)))?;
            chip.assert_lower_than_fixed(&mut layouter, &x, &BigUint::from(0u8))?;
        })
    });
    match outcome {
        Ok(res) => assert!(res.is_err(), "x < 0 was accepted"),
        Err(_) => panic!("assert_lower_than_fixed(x, 0) panicked instead of rejecting"),
    }
}

#[test]
fn trim_more_than_capacity_must_not_panic() {
    use midnight_circuits::{types::AssignedVector, vec::vector_gadget::VectorGadget};
    let outcome = std::panic::catch_unwind(|| {
        run_ng!(4, 8, 11, |chip, layouter| {
            let vg = VectorGadget::new(&chip);
            let v: AssignedVector<F, AssignedNative<F>, 8, 4> =
                vg.assign(&mut layouter, Value::known(vec![F::from(1), F::from(2), F::from(3)]))?;
            // "# Unsatisfiable Circuit: if the vector length < n_elems" (always the case here).
            let _t = vg.trim_beginning(&mut layouter, &v, 9)?;
        })
    });
    match outcome {
        Ok(res) => assert!(res.is_err(), "trimming 9 elements of a 3-element vector was accepted"),
        Err(_) => panic!("trim_beginning(v, M + 1) panicked instead of rejecting"),
    }
}
