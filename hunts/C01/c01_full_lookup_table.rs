//! C01 hunt -- defect 3: key generation refuses a circuit whose lookup table occupies exactly all
//! the usable rows (off-by-one in `Assignment::fill_from_row`).
//!
//! Where it belongs: `proofs/tests/c01_full_lookup_table.rs` (integration test, public API only).
//!
//! How to run (from the workspace root):
//!   CARGO_TARGET_DIR=/tmp/hunt-C01/target cargo test --offline -j 4 -p midnight-proofs \
//!       --test c01_full_lookup_table -- --nocapture
//!
//! What it shows: with k = 4 and this constraint system there are 5 blinding factors, hence
//! 2^4 - (5 + 1) = 10 usable rows (0..=9).  A lookup table of 10 rows therefore fits, and
//!   * `k_from_circuit` says so (it returns 4),
//!   * the same lookup over a 10-row table stored in a plain fixed column (`lookup_any`, cells
//!     assigned in an ordinary region) is keyed, proven and verified with k = 4 (control),
//! but when the 10 rows are loaded through `Layouter::assign_table`, `keygen_vk_with_k` returns
//! `NotEnoughRowsAvailable` (and `MockProver::run` panics).  After the table cells are assigned the
//! layouters call `fill_from_row(column, first_unused_row = 10, default)` to pad the column;
//! there is nothing to pad, but `plonk::keygen::Assembly::fill_from_row` rejects
//! `from_row == usable_rows.end` (`if !self.usable_rows.contains(&from_row)`).

use blake2b_simd::State as Blake2bState;
use midnight_curves::{Bls12, Fq};
use midnight_proofs::{
    circuit::{Layouter, SimpleFloorPlanner, Value},
    plonk::{
        create_proof, k_from_circuit, keygen_pk, keygen_vk_with_k, prepare, Advice, Circuit, Column,
        ConstraintSystem, Error, Fixed, Selector, TableColumn,
    },
    poly::{
        commitment::Guard,
        kzg::{params::ParamsKZG, KZGCommitmentScheme},
        Rotation,
    },
    transcript::{CircuitTranscript, Transcript},
};
use rand_core::OsRng;

type CS = KZGCommitmentScheme<Bls12>;

const K: u32 = 4;

/// One lookup `q * a in table`, the table being `0, 1, ..., table_rows - 1`.
/// `TABLE_API = true`: the table is a `TableColumn` loaded with `Layouter::assign_table`.
/// `TABLE_API = false`: the table is a plain fixed column assigned in a region (`lookup_any`).
#[derive(Clone)]
struct LookupCircuit<const TABLE_API: bool> {
    table_rows: usize,
}

#[derive(Clone)]
struct Config {
    a: Column<Advice>,
    q: Selector,
    table: Option<TableColumn>,
    fixed: Option<Column<Fixed>>,
}

impl<const TABLE_API: bool> Circuit<Fq> for LookupCircuit<TABLE_API> {
    type Config = Config;
    type FloorPlanner = SimpleFloorPlanner;
    #[cfg(feature = "circuit-params")]
    type Params = ();

    fn without_witnesses(&self) -> Self {
        self.clone()
    }

    fn configure(meta: &mut ConstraintSystem<Fq>) -> Config {
        let a = meta.advice_column();
        let q = meta.complex_selector();
        if TABLE_API {
            let t = meta.lookup_table_column();
            meta.lookup("lookup", |meta| {
                let q = meta.query_selector(q);
                let a = meta.query_advice(a, Rotation::cur());
                vec![(q * a, t)]
            });
            Config {
                a,
                q,
                table: Some(t),
                fixed: None,
            }
        } else {
            let f = meta.fixed_column();
            meta.lookup_any("lookup", |meta| {
                let q = meta.query_selector(q);
                let a = meta.query_advice(a, Rotation::cur());
                let f = meta.query_fixed(f, Rotation::cur());
                vec![(q * a, f)]
            });
            Config {
                a,
                q,
                table: None,
                fixed: Some(f),
            }
        }
    }

    fn synthesize(&self, cfg: Config, mut layouter: impl Layouter<Fq>) -> Result<(), Error> {
        layouter.assign_region(
            || "main",
            |mut region| {
                region.assign_advice(|| "a", cfg.a, 0, || Value::known(Fq::from(2)))?;
                cfg.q.enable(&mut region, 0)?;
                if let Some(f) = cfg.fixed {
                    for i in 0..self.table_rows {
                        region.assign_fixed(|| "t", f, i, || Value::known(Fq::from(i as u64)))?;
                    }
                }
                Ok(())
            },
        )?;
        if let Some(t) = cfg.table {
            layouter.assign_table(
                || "table",
                |mut table| {
                    for i in 0..self.table_rows {
                        table.assign_cell(|| "t", t, i, || Value::known(Fq::from(i as u64)))?;
                    }
                    Ok(())
                },
            )?;
        }
        Ok(())
    }
}

fn key_prove_verify<C: Circuit<Fq> + Clone>(circuit: &C) -> Result<usize, String> {
    let params = ParamsKZG::<Bls12>::unsafe_setup(K, OsRng);
    let vk = keygen_vk_with_k::<Fq, CS, _>(&params, circuit, K)
        .map_err(|e| format!("keygen_vk_with_k: {e:?}"))?;
    let usable_rows = (1usize << K) - (vk.cs().blinding_factors() + 1);
    let pk = keygen_pk(vk.clone(), circuit).map_err(|e| format!("keygen_pk: {e:?}"))?;
    let mut transcript = CircuitTranscript::<Blake2bState>::init();
    create_proof::<Fq, CS, _, _>(
        &params,
        &pk,
        &[circuit.clone()],
        0,
        &[&[]],
        OsRng,
        &mut transcript,
    )
    .map_err(|e| format!("create_proof: {e:?}"))?;
    let proof = transcript.finalize();
    let mut transcript = CircuitTranscript::<Blake2bState>::init_from_bytes(&proof);
    let guard = prepare::<Fq, CS, _>(&vk, &[&[]], &[&[]], &mut transcript)
        .map_err(|e| format!("prepare: {e:?}"))?;
    guard.verify(&params.verifier_params()).map_err(|e| format!("pairing: {e:?}"))?;
    Ok(usable_rows)
}

#[test]
fn a_lookup_table_filling_all_the_usable_rows_is_accepted() {
    // With one row to spare the table API works, and tells us the number of usable rows.
    let usable_rows = key_prove_verify(&LookupCircuit::<true> { table_rows: 9 })
        .expect("control: a 9-row table loaded with assign_table works");
    assert_eq!(usable_rows, 10);

    // Control: a 10-row table (rows 0..=9, i.e. all the usable rows) is fine for the proof system.
    assert_eq!(
        key_prove_verify(&LookupCircuit::<false> { table_rows: usable_rows }),
        Ok(usable_rows),
        "control: a table of `usable_rows` rows in a plain fixed column works"
    );

    // The library's own size computation agrees that k = 4 is enough.
    let full = LookupCircuit::<true> {
        table_rows: usable_rows,
    };
    assert_eq!(k_from_circuit(&full), K);

    // The same table loaded through `assign_table`.
    let result = key_prove_verify(&full);
    println!("table of {usable_rows} rows loaded with assign_table, k = {K}: {result:?}");
    assert_eq!(
        result,
        Ok(usable_rows),
        "a table that exactly fills the usable rows must be accepted"
    );
}
