//! C01 hunt -- scratch harness (NOT a defect demonstration; all of its tests are expected to pass
//! except where a line is printed with an `Err`).  A shape-parameterised circuit (custom gates of
//! any degree, instance queries at several rotations, copy constraints to instance / constant
//! cells, 1..3 phases, blinded/unblinded advice, lookup, additive-selector argument) is keyed,
//! proven and verified for num_proofs in 1..3, committed instance columns in 0..2, k in 4..5, both
//! transcript hashes, plus VK/PK serialisation round trips.  Drop it in `proofs/tests/` to run it:
//!   CARGO_TARGET_DIR=/tmp/hunt-C01/target cargo test --offline -j 4 -p midnight-proofs --test hunt_c01 -- --nocapture
// Scratch harness for the C01 hunt: a shape-parameterised circuit + prove/verify round trip.
#![allow(clippy::type_complexity)]

use std::sync::{Mutex, RwLock};

use blake2b_simd::State as Blake2bState;
use ff::Field;
use midnight_circuits::hash::poseidon::PoseidonState;
use midnight_curves::{Bls12, Fq, G1Projective};
use midnight_proofs::{
    circuit::{Layouter, SimpleFloorPlanner, Value},
    dev::MockProver,
    plonk::{
        commit_to_instances, create_proof, keygen_pk, keygen_vk_with_k, prepare, Advice, Challenge,
        Circuit, Column, ConstraintSystem, Constraints, Error, Expression, FirstPhase, Fixed,
        Instance, SecondPhase, Selector, TableColumn, ThirdPhase,
    },
    poly::{
        commitment::Guard,
        kzg::{params::ParamsKZG, KZGCommitmentScheme},
        Rotation,
    },
    transcript::{CircuitTranscript, Hashable, Sampleable, Transcript, TranscriptHash},
};
use rand_core::OsRng;

type CS = KZGCommitmentScheme<Bls12>;

#[derive(Clone, Debug)]
pub struct Shape {
    pub n_inst: usize,
    pub inst_rots: Vec<i32>,
    pub inst_eq: bool,
    pub phases: usize,
    pub unblinded: bool,
    pub lookup: bool,
    pub trash: bool,
    pub gate_degree: usize,
    pub zero_b: bool,
}

impl Default for Shape {
    fn default() -> Self {
        Shape {
            n_inst: 1,
            inst_rots: vec![0],
            inst_eq: true,
            phases: 1,
            unblinded: false,
            lookup: false,
            trash: false,
            gate_degree: 3,
            zero_b: false,
        }
    }
}

static SHAPE: RwLock<Option<Shape>> = RwLock::new(None);
static GUARD: Mutex<()> = Mutex::new(());
static SERDE: RwLock<Option<midnight_proofs::utils::SerdeFormat>> = RwLock::new(None);

fn shape() -> Shape {
    SHAPE.read().unwrap().clone().unwrap()
}

#[derive(Clone, Debug)]
struct Cfg {
    a: Column<Advice>,
    b: Column<Advice>,
    inst: Vec<Column<Instance>>,
    #[allow(dead_code)]
    f: Column<Fixed>,
    s_pow: Selector,
    s_inst: Selector,
    z: Option<(Column<Advice>, Challenge, Selector)>,
    w: Option<(Column<Advice>, Challenge, Selector)>,
    lookup: Option<(Selector, TableColumn)>,
    trash: Option<Selector>,
}

fn coef(j: usize, r: i32) -> Fq {
    Fq::from((7 * (j as u64 + 1)) + (r + 5) as u64)
}

#[derive(Clone, Debug)]
struct TestCircuit {
    x: Value<Fq>,
    // the instance values, needed to compute the witness of the instance gate
    inst: Value<Vec<Vec<Fq>>>,
}

impl Circuit<Fq> for TestCircuit {
    type Config = Cfg;
    type FloorPlanner = SimpleFloorPlanner;
    #[cfg(feature = "circuit-params")]
    type Params = ();

    fn without_witnesses(&self) -> Self {
        TestCircuit {
            x: Value::unknown(),
            inst: Value::unknown(),
        }
    }

    fn configure(meta: &mut ConstraintSystem<Fq>) -> Cfg {
        let sh = shape();
        let a = meta.advice_column();
        let b = if sh.unblinded {
            meta.unblinded_advice_column()
        } else {
            meta.advice_column()
        };
        let inst: Vec<_> = (0..sh.n_inst).map(|_| meta.instance_column()).collect();
        let f = meta.fixed_column();
        meta.enable_constant(f);
        meta.enable_equality(a);
        meta.enable_equality(b);
        if sh.inst_eq {
            for i in inst.iter() {
                meta.enable_equality(*i);
            }
        }
        let s_pow = meta.selector();
        meta.create_gate("pow", |meta| {
            let a = meta.query_advice(a, Rotation::cur());
            let b = meta.query_advice(b, Rotation::cur());
            let mut p = a.clone();
            for _ in 0..(sh.gate_degree - 2) {
                p = p * a.clone();
            }
            Constraints::with_selector(s_pow, vec![p - b])
        });
        let s_inst = meta.selector();
        if sh.n_inst > 0 && !sh.inst_rots.is_empty() {
            meta.create_gate("inst", |meta| {
                let b = meta.query_advice(b, Rotation::cur());
                let mut sum = Expression::Constant(Fq::ZERO);
                for (j, col) in inst.iter().enumerate() {
                    for r in sh.inst_rots.iter() {
                        let q = meta.query_instance(*col, Rotation(*r));
                        sum = sum + q * coef(j, *r);
                    }
                }
                Constraints::with_selector(s_inst, vec![sum - b])
            });
        }
        let z = if sh.phases >= 2 {
            let z = meta.advice_column_in(SecondPhase);
            let ch = meta.challenge_usable_after(FirstPhase);
            let s = meta.selector();
            meta.create_gate("z", |meta| {
                let a = meta.query_advice(a, Rotation::cur());
                let z = meta.query_advice(z, Rotation::cur());
                let ch = meta.query_challenge(ch);
                Constraints::with_selector(s, vec![z - a * ch])
            });
            Some((z, ch, s))
        } else {
            None
        };
        let w = if sh.phases >= 3 {
            let (zc, _, _) = z.unwrap();
            let w = meta.advice_column_in(ThirdPhase);
            let ch = meta.challenge_usable_after(SecondPhase);
            let s = meta.selector();
            meta.create_gate("w", |meta| {
                let z = meta.query_advice(zc, Rotation::cur());
                let w = meta.query_advice(w, Rotation::cur());
                let ch = meta.query_challenge(ch);
                Constraints::with_selector(s, vec![w - z * ch])
            });
            Some((w, ch, s))
        } else {
            None
        };
        let lookup = if sh.lookup {
            let ql = meta.complex_selector();
            let t = meta.lookup_table_column();
            meta.lookup("lk", |meta| {
                let ql = meta.query_selector(ql);
                let a = meta.query_advice(a, Rotation::cur());
                vec![(ql * a, t)]
            });
            Some((ql, t))
        } else {
            None
        };
        let trash = if sh.trash {
            let qt = meta.complex_selector();
            meta.create_gate("trash", |meta| {
                let a0 = meta.query_advice(a, Rotation::cur());
                let b0 = meta.query_advice(b, Rotation::cur());
                let a1 = meta.query_advice(a, Rotation::next());
                Constraints::with_additive_selector(qt, vec![a0 * b0 - a1])
            });
            Some(qt)
        } else {
            None
        };
        Cfg {
            a,
            b,
            inst,
            f,
            s_pow,
            s_inst,
            z,
            w,
            lookup,
            trash,
        }
    }

    fn synthesize(&self, cfg: Cfg, mut layouter: impl Layouter<Fq>) -> Result<(), Error> {
        let sh = shape();
        let ch1 = cfg.z.as_ref().map(|(_, ch, _)| layouter.get_challenge(*ch));
        let ch2 = cfg.w.as_ref().map(|(_, ch, _)| layouter.get_challenge(*ch));
        let zero = Value::known(Fq::ZERO);
        layouter.assign_region(
            || "main",
            |mut region| {
                let bval = |v: Value<Fq>| if sh.zero_b { zero } else { v };
                // row 0: pow gate
                let mut p = self.x;
                for _ in 0..(sh.gate_degree - 2) {
                    p = p * self.x;
                }
                let a0 = region.assign_advice(|| "a0", cfg.a, 0, || if sh.zero_b { zero } else { self.x })?;
                region.assign_advice(|| "b0", cfg.b, 0, || bval(p))?;
                cfg.s_pow.enable(&mut region, 0)?;
                // row 1: instance copy
                if sh.n_inst > 0 && sh.inst_eq {
                    region.assign_advice_from_instance(|| "a1", cfg.inst[0], 0, cfg.a, 1)?;
                }
                // row 2: instance gate
                if sh.n_inst > 0 && !sh.inst_rots.is_empty() && !sh.zero_b {
                    let sum = self.inst.as_ref().map(|inst| {
                        let mut sum = Fq::ZERO;
                        for (j, col) in inst.iter().enumerate() {
                            for r in sh.inst_rots.iter() {
                                let idx = 2 + *r;
                                assert!(idx >= 0);
                                let v = col.get(idx as usize).copied().unwrap_or(Fq::ZERO);
                                sum += v * coef(j, *r);
                            }
                        }
                        sum
                    });
                    region.assign_advice(|| "b2", cfg.b, 2, || sum)?;
                    cfg.s_inst.enable(&mut region, 2)?;
                }
                // row 3: phases
                let a3 = Value::known(Fq::from(7));
                region.assign_advice(|| "a3", cfg.a, 3, || a3)?;
                if let Some((z, _, s)) = cfg.z.as_ref() {
                    let zv = a3 * ch1.unwrap();
                    region.assign_advice(|| "z3", *z, 3, || zv)?;
                    s.enable(&mut region, 3)?;
                    if let Some((w, _, s)) = cfg.w.as_ref() {
                        let wv = zv * ch2.unwrap();
                        region.assign_advice(|| "w3", *w, 3, || wv)?;
                        s.enable(&mut region, 3)?;
                    }
                }
                // row 4: lookup
                if let Some((ql, _)) = cfg.lookup.as_ref() {
                    region.assign_advice(|| "a4", cfg.a, 4, || Value::known(Fq::from(5)))?;
                    ql.enable(&mut region, 4)?;
                }
                // row 5,6: trash
                if let Some(qt) = cfg.trash.as_ref() {
                    region.assign_advice(|| "a5", cfg.a, 5, || Value::known(Fq::from(3)))?;
                    if !sh.zero_b {
                        region.assign_advice(|| "b5", cfg.b, 5, || Value::known(Fq::from(4)))?;
                        region.assign_advice(|| "a6", cfg.a, 6, || Value::known(Fq::from(12)))?;
                    }
                    qt.enable(&mut region, 5)?;
                }
                // row 7: constant
                region.assign_advice_from_constant(|| "a7", cfg.a, 7, Fq::from(9))?;
                // row 8: copy
                a0.copy_advice(|| "a8", &mut region, cfg.a, 8)?;
                Ok(())
            },
        )?;
        if let Some((_, t)) = cfg.lookup.as_ref() {
            layouter.assign_table(
                || "t",
                |mut table| {
                    for i in 0..9usize {
                        table.assign_cell(|| "t", *t, i, || Value::known(Fq::from(i as u64)))?;
                    }
                    Ok(())
                },
            )?;
        }
        Ok(())
    }
}

pub struct Run {
    pub k: u32,
    pub num_proofs: usize,
    pub n_committed: usize,
    pub inst_len: usize,
    /// If true, the verifier is handed the very same slice of committed instances for
    /// every proof (all the proofs then use the same instance values).
    pub share_committed: bool,
    pub same_instances: bool,
    pub zero_instances: bool,
}

pub fn roundtrip<H>(sh: &Shape, run: &Run) -> Result<(), String>
where
    H: TranscriptHash,
    G1Projective: Hashable<H>,
    Fq: Hashable<H> + Sampleable<H>,
{
    *SHAPE.write().unwrap() = Some(sh.clone());
    let k = run.k;
    let params = ParamsKZG::<Bls12>::unsafe_setup(k, OsRng);

    let mk_inst = |seed: u64| -> Vec<Vec<Fq>> {
        (0..sh.n_inst)
            .map(|j| {
                (0..run.inst_len)
                    .map(|i| {
                        if run.zero_instances {
                            Fq::ZERO
                        } else {
                            Fq::from(1000 * seed + 100 * (j as u64) + i as u64 + 1)
                        }
                    })
                    .collect()
            })
            .collect()
    };
    let all_inst: Vec<Vec<Vec<Fq>>> = (0..run.num_proofs)
        .map(|p| mk_inst(if run.same_instances { 1 } else { p as u64 + 1 }))
        .collect();
    let circuits: Vec<TestCircuit> = all_inst
        .iter()
        .enumerate()
        .map(|(p, inst)| TestCircuit {
            x: Value::known(Fq::from(3 + p as u64)),
            inst: Value::known(inst.clone()),
        })
        .collect();

    // sanity: the witness satisfies the circuit
    for (c, inst) in circuits.iter().zip(all_inst.iter()).filter(|_| run.inst_len >= 5 || sh.n_inst == 0) {
        let mp = MockProver::run(k, c, inst.clone()).map_err(|e| format!("mock run: {e:?}"))?;
        mp.verify().map_err(|e| format!("mock verify: {e:?}"))?;
    }

    let vk = keygen_vk_with_k::<Fq, CS, _>(&params, &circuits[0].without_witnesses(), k)
        .map_err(|e| format!("keygen_vk: {e:?}"))?;
    let pk = keygen_pk(vk.clone(), &circuits[0].without_witnesses())
        .map_err(|e| format!("keygen_pk: {e:?}"))?;

    let (vk, pk) = if let Some(fmt) = *SERDE.read().unwrap() {
        use midnight_proofs::plonk::{ProvingKey, VerifyingKey};
        let vk_bytes = vk.to_bytes(fmt);
        let pk_bytes = pk.to_bytes(fmt);
        let vk2 = VerifyingKey::<Fq, CS>::from_bytes::<TestCircuit>(
            &vk_bytes,
            fmt,
            #[cfg(feature = "circuit-params")]
            (),
        )
        .map_err(|e| format!("vk read: {e:?}"))?;
        let pk2 = ProvingKey::<Fq, CS>::from_bytes::<TestCircuit>(
            &pk_bytes,
            fmt,
            #[cfg(feature = "circuit-params")]
            (),
        )
        .map_err(|e| format!("pk read: {e:?}"))?;
        if vk2.transcript_repr() != vk.transcript_repr() {
            return Err("vk transcript_repr differs after a serialisation round trip".into());
        }
        (vk2, pk2)
    } else {
        (vk, pk)
    };

    let inst_refs: Vec<Vec<&[Fq]>> =
        all_inst.iter().map(|i| i.iter().map(|c| &c[..]).collect()).collect();
    let inst_refs2: Vec<&[&[Fq]]> = inst_refs.iter().map(|i| &i[..]).collect();

    let mut transcript = CircuitTranscript::<H>::init();
    create_proof::<Fq, CS, _, _>(
        &params,
        &pk,
        &circuits,
        run.n_committed,
        &inst_refs2,
        OsRng,
        &mut transcript,
    )
    .map_err(|e| format!("create_proof: {e:?}"))?;
    let proof = transcript.finalize();

    // verifier
    let committed: Vec<Vec<G1Projective>> = all_inst
        .iter()
        .map(|inst| {
            inst[..run.n_committed]
                .iter()
                .map(|col| commit_to_instances::<Fq, CS>(&params, vk.get_domain(), col))
                .collect()
        })
        .collect();
    let committed_refs: Vec<&[G1Projective]> = if run.share_committed {
        (0..run.num_proofs).map(|_| &committed[0][..]).collect()
    } else {
        committed.iter().map(|c| &c[..]).collect()
    };
    let plain_refs: Vec<Vec<&[Fq]>> = all_inst
        .iter()
        .map(|i| i[run.n_committed..].iter().map(|c| &c[..]).collect())
        .collect();
    let plain_refs2: Vec<&[&[Fq]]> = plain_refs.iter().map(|i| &i[..]).collect();

    let mut transcript = CircuitTranscript::<H>::init_from_bytes(&proof);
    let guard = prepare::<Fq, CS, _>(&vk, &committed_refs, &plain_refs2, &mut transcript)
        .map_err(|e| format!("prepare: {e:?}"))?;
    transcript.assert_empty().map_err(|e| format!("trailing: {e:?}"))?;
    guard.verify(&params.verifier_params()).map_err(|e| format!("pairing: {e:?}"))?;
    Ok(())
}

fn lock() -> std::sync::MutexGuard<'static, ()> {
    GUARD.lock().unwrap_or_else(|e| e.into_inner())
}

#[test]
fn baseline() {
    let _g = lock();
    let sh = Shape::default();
    let run = Run {
        k: 4,
        num_proofs: 1,
        n_committed: 0,
        inst_len: 3,
        share_committed: false,
        same_instances: false,
        zero_instances: false,
    };
    roundtrip::<Blake2bState>(&sh, &run).unwrap();
    roundtrip::<PoseidonState<Fq>>(&sh, &run).unwrap();
}

#[test]
fn sweep() {
    let _g = lock();
    let mut failures = vec![];
    for phases in 1..=3usize {
        for (lookup, trash) in [(false, false), (true, false), (false, true), (true, true)] {
            for unblinded in [false, true] {
                for n_inst in 0..=2usize {
                    for n_committed in 0..=n_inst {
                        for num_proofs in [1usize, 2, 3] {
                            for rots in [vec![0], vec![-1, 0, 2], vec![1]] {
                                let sh = Shape {
                                    n_inst,
                                    inst_rots: rots.clone(),
                                    inst_eq: true,
                                    phases,
                                    unblinded,
                                    lookup,
                                    trash,
                                    gate_degree: 3 + (phases + n_inst) % 4,
                                    zero_b: false,
                                };
                                let run = Run {
                                    k: if lookup && trash { 5 } else { 4 + ((phases + num_proofs) % 2) as u32 },
                                    num_proofs,
                                    n_committed,
                                    inst_len: 1 + (num_proofs + n_inst) % 5,
                                    share_committed: false,
                                    same_instances: false,
                                    zero_instances: false,
                                };
                                let r = if (phases + n_inst + num_proofs) % 2 == 0 {
                                    roundtrip::<Blake2bState>(&sh, &run)
                                } else {
                                    roundtrip::<PoseidonState<Fq>>(&sh, &run)
                                };
                                if let Err(e) = r {
                                    failures.push(format!(
                                        "{sh:?} k={} proofs={} committed={} len={}: {e}",
                                        run.k, run.num_proofs, run.n_committed, run.inst_len
                                    ));
                                }
                            }
                        }
                    }
                }
            }
        }
    }
    for f in failures.iter() {
        println!("FAIL {f}");
    }
    assert!(failures.is_empty(), "{} failures", failures.len());
}

#[test]
fn edge_shared_committed() {
    let _g = lock();
    let sh = Shape::default();
    for share in [false, true] {
        let run = Run {
            k: 4,
            num_proofs: 2,
            n_committed: 1,
            inst_len: 5,
            share_committed: share,
            same_instances: true,
            zero_instances: false,
        };
        let r = roundtrip::<Blake2bState>(&sh, &run);
        println!("share={share}: {r:?}");
    }
}

#[test]
fn edge_identity_commitments() {
    let _g = lock();
    for h in 0..2 {
        // unblinded advice column that is identically zero
        let sh = Shape {
            unblinded: true,
            zero_b: true,
            trash: true,
            lookup: true,
            ..Shape::default()
        };
        let run = Run {
            k: 5,
            num_proofs: 2,
            n_committed: 1,
            inst_len: 5,
            share_committed: false,
            same_instances: false,
            zero_instances: true,
        };
        let r = if h == 0 {
            roundtrip::<Blake2bState>(&sh, &run)
        } else {
            roundtrip::<PoseidonState<Fq>>(&sh, &run)
        };
        println!("h={h}: {r:?}");
        let run = Run { inst_len: 0, ..run };
        let r = if h == 0 {
            roundtrip::<Blake2bState>(&sh, &run)
        } else {
            roundtrip::<PoseidonState<Fq>>(&sh, &run)
        };
        println!("h={h} empty instances: {r:?}");
    }
}

#[test]
fn edge_serde() {
    let _g = lock();
    use midnight_proofs::utils::SerdeFormat;
    for fmt in [SerdeFormat::Processed, SerdeFormat::RawBytes, SerdeFormat::RawBytesUnchecked] {
        *SERDE.write().unwrap() = Some(fmt);
        for (unblinded, zero_b) in [(false, false), (true, true)] {
            let sh = Shape {
                n_inst: 2,
                inst_rots: vec![-1, 0, 2],
                phases: 3,
                unblinded,
                zero_b,
                trash: true,
                lookup: true,
                gate_degree: 5,
                ..Shape::default()
            };
            let run = Run {
                k: 5,
                num_proofs: 2,
                n_committed: 1,
                inst_len: 5,
                share_committed: false,
                same_instances: false,
                zero_instances: false,
            };
            let r = roundtrip::<Blake2bState>(&sh, &run);
            println!("{fmt:?} unblinded={unblinded}: {r:?}");
        }
    }
    *SERDE.write().unwrap() = None;
}

#[test]
fn edge_degrees() {
    let _g = lock();
    for d in [2usize, 3, 4, 5, 6, 8, 9, 10, 16, 17, 18, 33] {
        for k in [4u32, 5] {
            let sh = Shape { gate_degree: d, ..Shape::default() };
            let run = Run {
                k,
                num_proofs: 1,
                n_committed: 0,
                inst_len: 5,
                share_committed: false,
                same_instances: false,
                zero_instances: false,
            };
            let r = std::panic::catch_unwind(|| roundtrip::<Blake2bState>(&sh, &run));
            println!("d={d} k={k}: {r:?}");
        }
    }
}
