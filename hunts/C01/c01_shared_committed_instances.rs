//! C01 hunt -- defect 1: an honest multi-proof is rejected when the verifier is handed the SAME
//! slice of committed instances for two of the proofs.
//!
//! Where it belongs: `proofs/tests/c01_shared_committed_instances.rs` (integration test, public
//! API only, default features, i.e. `committed-instances` on).
//!
//! How to run (from the workspace root):
//!   CARGO_TARGET_DIR=/tmp/hunt-C01/target cargo test --offline -j 4 -p midnight-proofs \
//!       --test c01_shared_committed_instances -- --nocapture
//!
//! What it shows: two circuit instances are proven together, both with the same committed
//! instance column (same values, hence the same commitment).  The verifier accepts the proof when
//! it is given two separately allocated copies of the commitment
//! (`&[&copy_a[..], &copy_b[..]]`) but rejects the very same proof with `Error::Opening` when it
//! is given the same slice twice (`&[&coms[..], &coms[..]]`), although both calls describe exactly
//! the same statement.  Cause: `CommitmentReference::eq` (proofs/src/poly/query.rs) compares
//! commitments by ADDRESS (`std::ptr::eq`), `verify_algebraic_constraints` builds the instance
//! queries from `&committed_instances[column.index()]` of the caller's slices, so the two proofs'
//! queries of the instance commitment at `x` look like one commitment queried twice at the same
//! point and `construct_intermediate_sets` returns `Error::DuplicatedQuery`.

use blake2b_simd::State as Blake2bState;
use midnight_curves::{Bls12, Fq, G1Projective};
use midnight_proofs::{
    circuit::{Layouter, SimpleFloorPlanner, Value},
    plonk::{
        commit_to_instances, create_proof, keygen_pk, keygen_vk_with_k, prepare, Advice, Circuit,
        Column, ConstraintSystem, Constraints, Error, Instance, Selector,
    },
    poly::{
        commitment::Guard,
        kzg::{params::ParamsKZG, KZGCommitmentScheme},
        Rotation,
    },
    transcript::{CircuitTranscript, Transcript},
};
use rand_core::OsRng;

type CS = KZGCommitmentScheme<Bls12>;

/// `s * (a - instance) = 0` on the rows where `s` is enabled.
#[derive(Clone)]
struct EqInstance {
    values: Vec<Value<Fq>>,
}

impl Circuit<Fq> for EqInstance {
    type Config = (Column<Advice>, Column<Instance>, Selector);
    type FloorPlanner = SimpleFloorPlanner;
    #[cfg(feature = "circuit-params")]
    type Params = ();

    fn without_witnesses(&self) -> Self {
        EqInstance {
            values: vec![Value::unknown(); self.values.len()],
        }
    }

    fn configure(meta: &mut ConstraintSystem<Fq>) -> Self::Config {
        let a = meta.advice_column();
        let i = meta.instance_column();
        let s = meta.selector();
        meta.create_gate("a = instance", |meta| {
            let a = meta.query_advice(a, Rotation::cur());
            let i = meta.query_instance(i, Rotation::cur());
            Constraints::with_selector(s, vec![a - i])
        });
        (a, i, s)
    }

    fn synthesize(&self, cfg: Self::Config, mut layouter: impl Layouter<Fq>) -> Result<(), Error> {
        layouter.assign_region(
            || "main",
            |mut region| {
                for (row, v) in self.values.iter().enumerate() {
                    region.assign_advice(|| "a", cfg.0, row, || *v)?;
                    cfg.2.enable(&mut region, row)?;
                }
                Ok(())
            },
        )
    }
}

fn verify(
    params: &ParamsKZG<Bls12>,
    vk: &midnight_proofs::plonk::VerifyingKey<Fq, CS>,
    committed: &[&[G1Projective]],
    proof: &[u8],
) -> Result<(), String> {
    // No plain instance column: one empty list of plain columns per proof.
    let plain: Vec<&[&[Fq]]> = committed.iter().map(|_| &[][..]).collect();
    let mut transcript = CircuitTranscript::<Blake2bState>::init_from_bytes(proof);
    let guard = prepare::<Fq, CS, _>(vk, committed, &plain, &mut transcript)
        .map_err(|e| format!("prepare failed: {e:?}"))?;
    transcript.assert_empty().map_err(|e| format!("trailing bytes: {e:?}"))?;
    guard.verify(&params.verifier_params()).map_err(|e| format!("pairing check failed: {e:?}"))
}

#[test]
fn honest_multi_proof_with_a_shared_committed_instance_slice_verifies() {
    const K: u32 = 4;
    let params = ParamsKZG::<Bls12>::unsafe_setup(K, OsRng);

    let instance: Vec<Fq> = vec![Fq::from(11), Fq::from(22), Fq::from(33)];
    let circuit = EqInstance {
        values: instance.iter().map(|v| Value::known(*v)).collect(),
    };

    let vk = keygen_vk_with_k::<Fq, CS, _>(&params, &circuit.without_witnesses(), K).unwrap();
    let pk = keygen_pk(vk.clone(), &circuit.without_witnesses()).unwrap();

    // Two circuit instances proven together; the (single) instance column is committed.
    let columns: [&[Fq]; 1] = [&instance];
    let mut transcript = CircuitTranscript::<Blake2bState>::init();
    create_proof::<Fq, CS, _, _>(
        &params,
        &pk,
        &[circuit.clone(), circuit.clone()],
        1,
        &[&columns[..], &columns[..]],
        OsRng,
        &mut transcript,
    )
    .expect("honest proof generation must succeed");
    let proof = transcript.finalize();

    let coms: Vec<G1Projective> =
        vec![commit_to_instances::<Fq, CS>(&params, vk.get_domain(), &instance)];

    // Control: two separately allocated (but equal) copies of the commitments are accepted.
    let copy_a = coms.clone();
    let copy_b = coms.clone();
    verify(&params, &vk, &[&copy_a[..], &copy_b[..]], &proof)
        .expect("control: the proof verifies with two separate copies of the commitment");

    // The same statement, the same proof, the same verifying key -- but the caller passes the
    // same slice for both proofs.
    let result = verify(&params, &vk, &[&coms[..], &coms[..]], &proof);
    assert_eq!(
        result,
        Ok(()),
        "an honest proof must be accepted whichever way the caller stores the (equal) committed \
         instances of the two proofs"
    );
}
