//! C01 hunt -- defect 2: `keygen_vk` (the automatic-`k` key generation used by
//! `zk_stdlib::utils::plonk_api::BlstPLONK::setup_vk` and by `proofs/tests/plonk_api.rs`) cannot
//! produce a key for a valid circuit whose longest column is the constants column.
//!
//! Where it belongs: `proofs/tests/c01_keygen_vk_constants.rs` (integration test, public API only).
//!
//! How to run (from the workspace root):
//!   CARGO_TARGET_DIR=/tmp/hunt-C01/target cargo test --offline -j 4 -p midnight-proofs \
//!       --test c01_keygen_vk_constants -- --nocapture
//!
//! What it shows: the circuit below has one region of 4 rows x 3 advice columns, every cell being
//! assigned with `assign_advice_from_constant`.  The floor planner stores each of the 12 constants
//! in its own row of the (single) constants column, so the circuit needs 12 usable rows: it does
//! not fit in 2^4 rows (10 usable rows) but fits in 2^5 rows, where key generation, proving and
//! verification all succeed (control below).  `k_from_circuit` -- the size computation behind
//! `keygen_vk`, `Params::downsize_from_circuit` and `MidnightCircuit::min_k` -- nevertheless
//! answers 4, because `dev::cost_model::DevAssembly::assign_fixed` only records the rows of cells
//! assigned INSIDE a region and the floor planner assigns the constants after the region is
//! closed.  As `keygen_vk` insists on `params.max_k() == k_from_circuit(circuit)`, it fails with
//! `NotEnoughRowsAvailable` on parameters of size 4 and with `SrsError(5, 4)` on parameters of
//! size 5: no parameters at all make it succeed for this circuit.

use blake2b_simd::State as Blake2bState;
use midnight_curves::{Bls12, Fq};
use midnight_proofs::{
    circuit::{Layouter, SimpleFloorPlanner},
    plonk::{
        create_proof, k_from_circuit, keygen_pk, keygen_vk, keygen_vk_with_k, prepare, Advice,
        Circuit, Column, ConstraintSystem, Error,
    },
    poly::{
        commitment::Guard,
        kzg::{params::ParamsKZG, KZGCommitmentScheme},
    },
    transcript::{CircuitTranscript, Transcript},
};
use rand_core::OsRng;

type CS = KZGCommitmentScheme<Bls12>;

#[derive(Clone)]
struct ManyConstants {
    rows: usize,
}

impl Circuit<Fq> for ManyConstants {
    type Config = [Column<Advice>; 3];
    type FloorPlanner = SimpleFloorPlanner;
    #[cfg(feature = "circuit-params")]
    type Params = ();

    fn without_witnesses(&self) -> Self {
        self.clone()
    }

    fn configure(meta: &mut ConstraintSystem<Fq>) -> Self::Config {
        let cols = [meta.advice_column(), meta.advice_column(), meta.advice_column()];
        let constants = meta.fixed_column();
        meta.enable_constant(constants);
        for c in cols {
            meta.enable_equality(c);
        }
        cols
    }

    fn synthesize(&self, cols: Self::Config, mut layouter: impl Layouter<Fq>) -> Result<(), Error> {
        layouter.assign_region(
            || "cells fixed to constants",
            |mut region| {
                for row in 0..self.rows {
                    for (j, c) in cols.iter().enumerate() {
                        region.assign_advice_from_constant(
                            || "constant cell",
                            *c,
                            row,
                            Fq::from((3 * row + j) as u64),
                        )?;
                    }
                }
                Ok(())
            },
        )
    }
}

#[test]
fn keygen_vk_works_for_a_circuit_dominated_by_constants() {
    let circuit = ManyConstants { rows: 4 };

    // Control: the circuit is fine -- with k = 5 it can be keyed, proven and verified.
    {
        let params = ParamsKZG::<Bls12>::unsafe_setup(5, OsRng);
        let vk = keygen_vk_with_k::<Fq, CS, _>(&params, &circuit, 5).expect("keygen with k = 5");
        let pk = keygen_pk(vk.clone(), &circuit).expect("keygen_pk");
        let mut transcript = CircuitTranscript::<Blake2bState>::init();
        create_proof::<Fq, CS, _, _>(
            &params,
            &pk,
            &[circuit.clone()],
            0,
            &[&[]],
            OsRng,
            &mut transcript,
        )
        .expect("proof");
        let proof = transcript.finalize();
        let mut transcript = CircuitTranscript::<Blake2bState>::init_from_bytes(&proof);
        let guard = prepare::<Fq, CS, _>(&vk, &[&[]], &[&[]], &mut transcript).expect("prepare");
        guard.verify(&params.verifier_params()).expect("control: the honest proof verifies");
    }

    // The library's own size computation ...
    let k = k_from_circuit(&circuit);
    println!("k_from_circuit = {k}");

    // ... must be a size for which the keys can be generated,
    let params = ParamsKZG::<Bls12>::unsafe_setup(k, OsRng);
    let with_k = keygen_vk_with_k::<Fq, CS, _>(&params, &circuit, k).map(|_| ());
    println!("keygen_vk_with_k(k_from_circuit) = {with_k:?}");

    // ... and `keygen_vk` must succeed on parameters of some size.
    let auto: Vec<_> = (k..=k + 2)
        .map(|size| {
            let params = ParamsKZG::<Bls12>::unsafe_setup(size, OsRng);
            let r = keygen_vk::<Fq, CS, _>(&params, &circuit).map(|_| ());
            println!("keygen_vk on parameters of size {size} = {r:?}");
            r
        })
        .collect();

    assert!(
        with_k.is_ok(),
        "k_from_circuit returned {k}, but the circuit cannot be keyed with that k: {with_k:?}"
    );
    assert!(auto.iter().any(|r| r.is_ok()), "keygen_vk fails on parameters of every size");
}
