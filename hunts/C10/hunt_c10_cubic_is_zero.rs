// C10 hunt - defect 2: `CubicExtField::is_zero` (curves/src/ff_ext/cubic.rs) ignores the `c2`
// coefficient, so non-zero elements of BN254 Fq6 (and, through it, Fq12) report `is_zero() == 1`.
//
// Belongs in: curves/tests/hunt_c10_cubic_is_zero.rs (integration test, public API only; the BN254
// tower is behind the `dev-curves` feature).
// Run with:
//   CARGO_TARGET_DIR=/tmp/hunt-C10/target cargo test --offline -j 4 -p midnight-curves \
//       --features dev-curves --test hunt_c10_cubic_is_zero
#![cfg(feature = "dev-curves")]

use ff::Field;
use midnight_curves::bn256::{Fq12, Fq2, Fq6};

#[test]
fn bn254_fq6_is_zero_looks_at_every_coefficient() {
    // x = v^2  (c0 = 0, c1 = 0, c2 = 1): a unit of Fq6.
    let x = Fq6::new(Fq2::ZERO, Fq2::ZERO, Fq2::ONE);

    // Sanity: the library itself agrees that x is not the zero element.
    assert_ne!(x, Fq6::ZERO);
    let inv = x.invert().expect("v^2 is invertible");
    assert_eq!(x * inv, Fq6::ONE);
    assert_ne!(x + x, x);

    // Control: elements whose c0 or c1 is non-zero are handled correctly.
    assert!(!bool::from(Fq6::new(Fq2::ONE, Fq2::ZERO, Fq2::ZERO).is_zero()));
    assert!(!bool::from(Fq6::new(Fq2::ZERO, Fq2::ONE, Fq2::ZERO).is_zero()));
    assert!(bool::from(Fq6::ZERO.is_zero()));

    // The defect: is_zero() must be false for a non-zero element.
    assert!(
        !bool::from(x.is_zero()),
        "Fq6(0, 0, 1).is_zero() returned true although the element is invertible"
    );
    assert!(!x.is_zero_vartime());
}

#[test]
fn bn254_fq12_is_zero_looks_at_every_coefficient() {
    // y = v^2 * w  (only the c1.c2 coefficient set): a unit of Fq12.
    let y = Fq12::new(Fq6::ZERO, Fq6::new(Fq2::ZERO, Fq2::ZERO, Fq2::ONE));
    assert_ne!(y, Fq12::ZERO);
    let inv = y.invert().expect("v^2 w is invertible");
    assert_eq!(y * inv, Fq12::ONE);
    assert!(
        !bool::from(y.is_zero()),
        "Fq12 element v^2*w reports is_zero() == true although it is invertible"
    );
}
